/-
  C19 -- the orchestration script resumes correctly after an interruption at any point.

  CLAUSE MAP (property text -> theorems; all about `examine` / `planStep` / `invoke` / `runSched` / `runProcs` of
  `Model/Orchestrator.lean`, the definitions `driver_c19` executes)

  quantifier
   * "whatever point ... between or during directory creation, during a pipeline run with partially published outputs, just
     after a step completes", "sequences of interruptions": a schedule `List (Option Nat)` interrupts every call after any
     number of atomic actions (each mkdir level, each unlink/rmdir, each published file); ANY number of interruptions --
     every theorem below is for all `sched` / `scheds`.
   * "batch sizes 1..4, any number of plates": all `cfg.B ≥ 1`, all pipelines `cfg.pubs` (any number of steps).
   * "retrospective and prospective modes": retrospective unconditional given `MarkerLast`; prospective under `MarkerLast`
     (`…_partial`, `C19_same_as_uninterrupted_prospective`) -- the hypothesis fails for prospective/main.nf: known finding,
     `C19_prospective_marker_first_counterexample(_batch2)`, `demo_not_markerLast_prosp`.
   * `MarkerLast` itself: `C19_visible_outputs_before_marker` (every valid execution order of the workflow graphs as wired
     in the .nf files produces everything the script can see before the marker), `C19_driver_pipeline_markerLast` (the
     pipeline the driver runs), `sim_markerLast` (the concrete simulation).  Trusted: that the .nf wiring is transcribed
     correctly and nextflow publishes a process's outputs after its inputs.
  clauses
   1 "rerunning it (after removing any directory it explicitly names as incomplete) continues the simulation"
        -> `C19_resume` / `C19_resume_partial` (`Resumed`: directory = uninterrupted directory + at most one marker-less piece
           of junk), `C19_examine_correct` (what the scan answers on every such directory; names exactly the partial plate
           directory), `C19_examine_next_is_generated` + `C19_next_step_arithmetic_generated` (next step = the translated
           Python arithmetic on the last completed step, empty iteration directory included).
   2 "every step that is executed receives the same inputs ... as in an execution that was never interrupted"
        -> `Resumed.launched`, `C19_same_as_uninterrupted` (retrospective, against actual uninterrupted `runSched`),
           `C19_same_as_uninterrupted_prospective` (against actual uninterrupted process runs `usched`); what the inputs ARE:
           `C19_later_plate_inputs` (chains of plate_0 of the iteration, excludes = earlier selections),
           `C19_first_plate_test_screen`, `C19_prospective_launch_screen`.
   3 "and records the same selection" -> `pubs` is a function of the launch record; `Resumed`: completed launches = `p.flat`
        of the uninterrupted run and the directory holds `cfg.pubs l` for each (`treeIters`).
   4 "No completed step is ever deleted" -> `Resumed`: no `scriptRemoved` event at all, `UserSafe` (a named directory never
        belongs to a completed step).
   5 "or executed twice" / 6 "no step index is skipped" -> `Resumed`: completed steps numbered 0,1,2,...;
        `C19_launch_order(_partial)`: every launch, completed or interrupted, is for step number "steps completed before it".
   7 "a step is never started from a screen other than the output of its immediate predecessor"
        -> `C19_predecessor`, `C19_every_launch_from_predecessor` (every launch of every execution, step number exactly one
           less); prospective mode starts every step from the user's screen (`C19_prospective_launch_screen`).
   + the run ends: `C19_simulation_terminates_all_revealed` (concrete reveal-one-plate-per-step instance).
   + regression of the repaired defect: `C19_examineOld_counterexample`.
   + the directory the script NAMES (`Props/C19Regress.lean`): `C19_named_directory` (what is named on every reachable
     directory), `C19_remove_named_resumes` (removing exactly it keeps every completed step and resumes at the same step),
     `C19_named_is_what_is_removed` (it is what `planStep` / the resume theorems remove), `C19_advice_names_plate_dir` (the path
     expression of the message, generated from the script).
   Regression (not a clause): `C19_S7_naming_iteration_dir_counterexample` -- S7-C19, message names `iter_K/`: a completed
     plate_0 is removed and (0,0) is executed twice (batch size 2, interrupted in plate_1).
   Regression (not a clause): `C19_S6_lexicographic_scan_counterexample` -- S6-C19, `sorted` without the numeric key: with
     `iter_10` the scan answers the completed step (10,0).
   Regression (not a clause): `C19_S5_process_counter_counterexample` -- S5-C19, in-process step counter: after an interruption
     the prospective invocation runs on into the next iteration.
  harness-only: that the model IS the script (glob/os/shutil semantics, the scan loops; tie on every interruption point) --
  except the next-step arithmetic, which is translated; that the real CLIs behave like the concrete pipeline (system stream).

  Model: `Batchie/Model/Orchestrator.lean` (`examine`, `planStep`, `invoke`, `runSched`; validated against
  `nextflow/scripts/batchie.py` on every run by `harness/c19.py`).  Vocabulary used in the statements:

  * `cfg : Cfg` = mode, batch size `B`, and `pubs : Launch → List File`, the files a pipeline run publishes, in
    publication order -- an UNINTERPRETED function of the launch record (which holds the workflow, the step index and
    every input file reference together with the content read at launch time).  "Same launch record" therefore
    means "same inputs", and by `pubs` "same outputs / same recorded selection".
  * `runSched cfg sched t tr`: one call of the step function per entry of `sched`; entry `some k` interrupts that
    call after `k` atomic actions (mkdir / unlink / rmdir / one published file), `none` does not interrupt it.  A call
    in which `examine` raises naming a directory is followed by the removal of that directory.  Any number of
    interruptions at any atomic action of any call is a `sched`.
  * `CRun cfg p`: `p` lists the steps of an UNINTERRUPTED execution, in order -- each launch record is the one the
    step function plans on the clean directory that holds exactly the steps before it.  `uninterrupted_reaches`
    / `C19_same_as_uninterrupted` tie this to `runSched` with no interruption.
  * `treeIters cfg p jk`: the directory holding exactly the completed steps `p` plus the junk `jk` (nothing, an empty
    iteration directory, or the next step's plate directory without the completion marker).
  * `MarkerLast cfg`: every workflow the mode uses publishes `screen_metadata.json` last (`pubs` = the pipeline run up
    to the marker).  Read off the .nf files this holds for `retrospective` and `next_plate` (EXTRACT_SCREEN_METADATA
    consumes the advanced screen) for every file a glob of the script can match -- the model-evaluation outputs of
    RUN_RETROSPECTIVE_STEP are not upstream of the marker, may follow it, are invisible to the script and are not
    modelled (validated by the harness) -- and FAILS for `prospective/main.nf` (EXTRACT_SCREEN_METADATA(ch_input...)):
    known finding `C19:prospective-marker-first`.
-/
import Batchie.Lemmas.OrchRun
import Batchie.Lemmas.OrchGenerated
import Batchie.Lemmas.OrchFake
import Batchie.Lemmas.OrchInputs
import Batchie.Lemmas.OrchProgress
import Batchie.Lemmas.OrchProcs
import Batchie.Lemmas.OrchDag

namespace Batchie.Props.C19
open Batchie.Orchestrator

/-! ## `examine` -/

/-- On every directory an execution can reach (complete steps `p` of an uninterrupted run + at most one piece of
    junk; `C19_resume` shows these are all), `examine` either names the incomplete plate directory, or returns the
    successor of the last complete step together with that step's metadata and output screen -- in particular an
    empty iteration directory (`Junk.emptyIter`) changes nothing (the repaired defect). -/
theorem C19_examine_correct (cfg : Cfg) (hB : 1 ≤ cfg.B) (hm : HasMarker cfg) (p : Prog) (hc : CRun cfg p)
    (jk : Junk) (hj : JunkOK jk) (o : Bool) :
    examine cfg.B ⟨o, treeIters cfg p jk⟩ =
      (match jk with
       | .plate _ => .err (.invalid p.cs.length p.cur.length)
       | _ => .ok (nextOfProg cfg p)) ∧
    (nextOfProg cfg p).iter * cfg.B + (nextOfProg cfg p).plate = p.flat.length ∧
    (nextOfProg cfg p).plate < cfg.B ∧
    (∀ l, p.flat.getLast? = some l →
      (nextOfProg cfg p).lastMeta = metaOf ⟨l.plate, some (cfg.pubs l)⟩ ∧
      (nextOfProg cfg p).screen = (screenOf ⟨l.plate, some (cfg.pubs l)⟩).map (fun f => ⟨l.iter, l.plate, f⟩)) ∧
    (p.flat = [] → nextOfProg cfg p = ⟨0, 0, none, none⟩) := by
  have hp := hc.ok cfg hB
  refine ⟨examine_treeIters cfg hm cfg.B hB p hp (hc.wf cfg) jk hj o, ?_, ?_, nextOfProg_of_CRun cfg hc⟩
  · rw [nextOfProg_iter, nextOfProg_plate, flat_length hp]
  · rw [nextOfProg_plate]; exact hp.2

/-- regression lemma for the defect repaired in /repo (`if not plate_dirs: continue`): on the witness directory
    (completed `iter_0/plate_0..1`, empty `iter_1`, batch size 2) the UNREPAIRED scan answers step `(0,1)` -- an
    already completed step, to be re-run from its own output -- while the script as it is now answers `(1,0)`. -/
def witnessTree : Tree :=
  ⟨true, [⟨0, [⟨0, some [⟨.advanced, 5⟩, ⟨.marker, 1⟩]⟩, ⟨1, some [⟨.advanced, 6⟩, ⟨.marker, 0⟩]⟩]⟩, ⟨1, []⟩]⟩

theorem C19_examineOld_counterexample :
    examineOld 2 witnessTree = .ok ⟨0, 1, some 0, some ⟨0, 1, ⟨.advanced, 6⟩⟩⟩ ∧
    examine 2 witnessTree = .ok ⟨1, 0, some 0, some ⟨0, 1, ⟨.advanced, 6⟩⟩⟩ := by
  decide

/-! ## resumption -/

/-- The conclusion shared by `C19_resume` and `C19_resume_partial`, for the directory `t` and the trace `tr`
    at the end of an execution. -/
def Resumed (cfg : Cfg) (t : Tree) (tr : List Event) : Prop :=
  ∃ (p : Prog) (jk : Junk),
    -- the completed steps are those of an uninterrupted run, each completed exactly once, in order ...
    CRun cfg p ∧ completedOf tr = p.flat ∧
    -- ... numbered 0, 1, 2, ...: no index skipped, none executed twice
    (completedOf tr).map (stepNo cfg.B) = List.range (completedOf tr).length ∧
    -- every launch (completed or interrupted) carries the launch record of the uninterrupted run
    (∀ l ∈ launchedOf tr, l ∈ p.flat ∨ (¬ isFinished cfg p ∧ planLaunch cfg p = .ok l)) ∧
    -- the script's own `rmtree` never removes anything, and the directory the user is told to delete never
    -- belongs to a step that has completed
    (∀ e ∈ tr, ∀ i j, e ≠ Event.scriptRemoved i j) ∧ UserSafe tr ∧
    -- the directory is the uninterrupted run's directory + at most one marker-less piece of junk
    t.iters = treeIters cfg p jk ∧ JunkOK jk ∧
    -- every launch, completed or interrupted, is for step number "steps completed before it": a completed step is never
    -- launched again and no step is launched before its predecessor completed
    LaunchOrd cfg.B tr

theorem resumed_of_GI {cfg : Cfg} (hB : 1 ≤ cfg.B) {t : Tree} {tr : List Event} {p : Prog} {jk : Junk}
    (h : GI cfg t tr p jk) : Resumed cfg t tr :=
  ⟨p, jk, h.crun, h.comp, by rw [h.comp]; exact h.crun.steps cfg hB, h.launched, h.noScript, h.userSafe, h.iters, h.junk, h.lord⟩

/-- **Retrospective mode, every batch size ≥ 1, ANY number of interruptions at ANY atomic action.**
    Starting from nothing, after any schedule of interrupted / uninterrupted calls of the step function:
    every launched step has the launch record (all inputs, with contents) of the uninterrupted run; the completed
    steps are exactly an initial segment of the uninterrupted run, each once, in order, no index skipped; no
    complete step directory is ever removed. -/
theorem C19_resume (cfg : Cfg) (hmode : cfg.mode = .retrospective) (hB : 1 ≤ cfg.B) (hml : MarkerLast cfg)
    (sched : List (Option Nat)) :
    Resumed cfg (runSched cfg sched Tree.empty []).tree (runSched cfg sched Tree.empty []).events := by
  have _ := hmode
  obtain ⟨p, jk, h⟩ := runSched_inv cfg hml hB sched (GI.init cfg)
  exact resumed_of_GI hB h

/-- **Both modes, under the hypothesis "the completion marker is published last"**, for any number of process runs
    (prospective mode: one per iteration -- `main`'s loop ends by itself after the last plate of an iteration),
    each with any number of interruptions.  For `cfg.mode = .prospective` the hypothesis is NOT satisfied by
    `workflows/nf-core/batchie/prospective/main.nf`: see `C19_prospective_marker_first_counterexample`. -/
theorem C19_resume_partial (cfg : Cfg) (hB : 1 ≤ cfg.B) (hml : MarkerLast cfg)
    (scheds : List (List (Option Nat))) :
    Resumed cfg (runProcs cfg scheds Tree.empty []).1 (runProcs cfg scheds Tree.empty []).2 := by
  obtain ⟨p, jk, h⟩ := runProcs_inv cfg hml hB scheds (GI.init cfg)
  exact resumed_of_GI hB h

/-- **no completed step is executed twice, not even partially; no step is started before its predecessor completed**
    (retrospective mode, any interruption schedule): whenever the pipeline is launched -- whether that run completes or
    is interrupted -- it is launched for step number `iter * B + plate` = the number of steps completed so far. -/
theorem C19_launch_order (cfg : Cfg) (hmode : cfg.mode = .retrospective) (hB : 1 ≤ cfg.B) (hml : MarkerLast cfg)
    (sched : List (Option Nat)) (a b : List Event) (l : Launch)
    (h : (runSched cfg sched Tree.empty []).events = a ++ Event.launched l :: b) :
    l.iter * cfg.B + l.plate = (completedOf a).length := by
  have _ := hmode
  obtain ⟨p, jk, hg⟩ := runSched_inv cfg hml hB sched (GI.init cfg)
  exact hg.lord a b l h

/-- the same for both modes and any number of process runs, under "marker last" -/
theorem C19_launch_order_partial (cfg : Cfg) (hB : 1 ≤ cfg.B) (hml : MarkerLast cfg)
    (scheds : List (List (Option Nat))) (a b : List Event) (l : Launch)
    (h : (runProcs cfg scheds Tree.empty []).2 = a ++ Event.launched l :: b) :
    l.iter * cfg.B + l.plate = (completedOf a).length := by
  obtain ⟨p, jk, hg⟩ := runProcs_inv cfg hml hB scheds (GI.init cfg)
  exact hg.lord a b l h

/-! ## the next-step arithmetic is the translated Python

`Batchie.Gen.OrchNext` is generated from `nextflow/scripts/batchie.py` on every run (translator module `Orch`): the
statements of `examine_output_dir_to_determine_current_iteration` between `if last_successful_run_meta is None: return`
and the final `return`. -/

/-- for every batch size and every scan state with a completed step, the model's `nextOf` (the function `examine`
    ends with, and the driver runs) computes what the translated statements compute -/
theorem C19_next_step_arithmetic_generated (B : Nat) (st : ExSt) (m : Nat) (h : st.lastMeta = some m) :
    ((nextOf B st).iter : Int) =
        (Batchie.Gen.OrchNext.run ((st.curPlate.getD 0 : Nat) : Int) (B : Int) ((st.curIter.getD 0 : Nat) : Int)).next_iter_index ∧
    ((nextOf B st).plate : Int) =
        (Batchie.Gen.OrchNext.run ((st.curPlate.getD 0 : Nat) : Int) (B : Int) ((st.curIter.getD 0 : Nat) : Int)).next_plate_index ∧
    (Batchie.Gen.OrchNext.run ((st.curPlate.getD 0 : Nat) : Int) (B : Int) ((st.curIter.getD 0 : Nat) : Int)).err = false ∧
    (nextOf B st).lastMeta = some m :=
  nextOf_generated B st m h

/-- on every directory an execution can reach (with or without junk: an empty `iter_k` included), when `examine` does not
    name a directory the step it returns is the translated arithmetic applied to the index of the LAST COMPLETED step
    `l` -- never an extra plate `(k-1, B)` of a full iteration, never a completed step -/
theorem C19_examine_next_is_generated (cfg : Cfg) (hB : 1 ≤ cfg.B) (hm : HasMarker cfg) (p : Prog) (hc : CRun cfg p)
    (jk : Junk) (hj : JunkOK jk) (hnp : ∀ s, jk ≠ .plate s) (o : Bool) (l : Launch) (hl : p.flat.getLast? = some l) :
    ∃ nx, examine cfg.B ⟨o, treeIters cfg p jk⟩ = .ok nx ∧
      (nx.iter : Int) = (Batchie.Gen.OrchNext.run (l.plate : Int) (cfg.B : Int) (l.iter : Int)).next_iter_index ∧
      (nx.plate : Int) = (Batchie.Gen.OrchNext.run (l.plate : Int) (cfg.B : Int) (l.iter : Int)).next_plate_index ∧
      nx.iter * cfg.B + nx.plate = l.iter * cfg.B + l.plate + 1 := by
  have hex := (C19_examine_correct cfg hB hm p hc jk hj o)
  obtain ⟨h1, h2, h3⟩ := nextOfProg_generated cfg hB hc hl
  refine ⟨nextOfProg cfg p, ?_, h1, h2, ?_⟩
  · rw [hex.1]
    cases jk with
    | plate s => exact absurd rfl (hnp s)
    | none => rfl
    | emptyIter => rfl
  · rw [hex.2.1]
    have hs := hc.steps cfg hB
    have hlen : p.flat ≠ [] := by intro e; rw [e] at hl; simp at hl
    have : (p.flat.map (stepNo cfg.B)).getLast? = some (stepNo cfg.B l) := by
      rw [List.getLast?_map, hl]; rfl
    rw [hs] at this
    have hpos : 0 < p.flat.length := List.length_pos_iff.mpr hlen
    rw [List.getLast?_range] at this
    simp only [stepNo] at this
    split at this
    · omega
    · injection this with this; omega

/-- each step of an uninterrupted retrospective run (hence, by `C19_resume`, of every interrupted one) is started
    from the output screen of its immediate predecessor (`advanced_screen.h5` when the predecessor published one) -/
theorem C19_predecessor (cfg : Cfg) (hmode : cfg.mode = .retrospective) (hB : 1 ≤ cfg.B) {p : Prog} (hc : CRun cfg p)
    {l' : Launch} (hl : planLaunch cfg p = .ok l') :
    ∀ l, p.flat.getLast? = some l →
      l'.screen = (screenOf ⟨l.plate, some (cfg.pubs l)⟩).map (fun f => ⟨l.iter, l.plate, f⟩) ∧ l'.screen ≠ none := by
  intro l hlast
  unfold planLaunch at hl
  rw [hmode] at hl
  rcases launchOf_retro_screen hl with h0 | ⟨h1, h2⟩
  · exfalso
    rw [nextOfProg_iter, nextOfProg_plate] at h0
    have hlen : p.flat.length = 0 := by
      rw [flat_length (hc.ok cfg hB), h0.1, h0.2]; simp
    simp [List.length_eq_zero_iff.mp hlen] at hlast
  · rw [h1] at h2 ⊢
    exact ⟨((nextOfProg_of_CRun cfg hc).1 l hlast).2, h2⟩

/-- every step of an uninterrupted run was planned on the clean directory holding exactly the steps before it -/
theorem CRun_mem_planned (cfg : Cfg) {p : Prog} (hc : CRun cfg p) :
    ∀ l ∈ p.flat, ∃ q, CRun cfg q ∧ ¬ isFinished cfg q ∧ planLaunch cfg q = .ok l := by
  induction hc with
  | nil => intro l hl; simp [Prog.empty, Prog.flat] at hl
  | @push q l0 hq hnf hl0 ih =>
    intro l hl
    rw [Prog.flat_push, List.mem_append] at hl
    rcases hl with hl | hl
    · exact ih l hl
    · simp at hl; subst hl; exact ⟨q, hq, hnf, hl0⟩

/-- **every launched step of every (interrupted or uninterrupted) retrospective execution, at every plate index of every
    batch size**, other than the very first step `(0,0)`: its `--screen` / `--training_screen` is the output screen
    (`advanced_screen.h5` when there is one) of the step whose number is exactly one less -- the immediate predecessor,
    not plate_0 of the iteration, not an older step. -/
theorem C19_every_launch_from_predecessor (cfg : Cfg) (hmode : cfg.mode = .retrospective) (hB : 1 ≤ cfg.B)
    (hml : MarkerLast cfg) (sched : List (Option Nat)) :
    ∀ l ∈ launchedOf (runSched cfg sched Tree.empty []).events,
      (l.iter = 0 ∧ l.plate = 0 ∧ l.screen = none) ∨
      ∃ lp, stepNo cfg.B lp + 1 = stepNo cfg.B l ∧
        l.screen = (screenOf ⟨lp.plate, some (cfg.pubs lp)⟩).map (fun f => ⟨lp.iter, lp.plate, f⟩) ∧ l.screen ≠ none := by
  intro l hl
  obtain ⟨p, jk, hg⟩ := runSched_inv cfg hml hB sched (GI.init cfg)
  have hplanned : ∃ q, CRun cfg q ∧ planLaunch cfg q = .ok l := by
    rcases hg.launched l hl with h1 | ⟨_, h2⟩
    · obtain ⟨q, hq, _, hpl⟩ := CRun_mem_planned cfg hg.crun l h1
      exact ⟨q, hq, hpl⟩
    · exact ⟨p, hg.crun, h2⟩
  obtain ⟨q, hq, hpl⟩ := hplanned
  cases hlast : q.flat.getLast? with
  | none =>
    left
    have he : q.flat = [] := by simpa using hlast
    have hn := (nextOfProg_of_CRun cfg hq).2 he
    have hpos := planLaunch_pos cfg hpl
    have h0 : q.cs.length = 0 ∧ q.cur.length = 0 := by
      have h1 := nextOfProg_iter cfg q
      have h2 := nextOfProg_plate cfg q
      rw [hn] at h1 h2
      exact ⟨h1.symm, h2.symm⟩
    refine ⟨by omega, by omega, ?_⟩
    unfold planLaunch at hpl
    rw [hmode, hn] at hpl
    simp [launchOf] at hpl
    rw [← hpl]
  | some lp =>
    right
    obtain ⟨h1, h2⟩ := C19_predecessor cfg hmode hB hq hpl lp hlast
    refine ⟨lp, ?_, h1, h2⟩
    rw [stepNo_planLaunch cfg hB hq hpl]
    have hs := hq.steps cfg hB
    have hne : q.flat ≠ [] := by intro e; rw [e] at hlast; simp at hlast
    have : (q.flat.map (stepNo cfg.B)).getLast? = some (stepNo cfg.B lp) := by
      rw [List.getLast?_map, hlast]; rfl
    rw [hs, List.getLast?_range] at this
    have hpos : 0 < q.flat.length := List.length_pos_iff.mpr hne
    split at this
    · omega
    · injection this with this; omega

/-- **later plates of an iteration (plate index 1, 2, 3, ...), both modes**: the posterior samples / distance chunks are
    those of plate_0 of the SAME iteration and `--excludes` is exactly the list of selections recorded by the earlier
    plates of that iteration -/
theorem C19_later_plate_inputs (cfg : Cfg) {p : Prog} {l' : Launch}
    (hl : planLaunch cfg p = .ok l') (hw : l'.wf = .nextPlate) :
    ∃ l0 rest, p.cur = l0 :: rest ∧
      l'.chains = (cfg.pubs l0).filter (fun f => f.kind.isThetas) ++ (cfg.pubs l0).filter (fun f => f.kind.isDist) ∧
      l'.excludes = (let s := p.cur.filterMap (fun l => (findKind .selected (cfg.pubs l)).map (·.content))
                     if s.isEmpty then none else some s) :=
  planLaunch_nextPlate_inputs cfg hl hw

/-- **first plate of a later iteration**: the test screen comes from `iter_0/plate_0`, i.e. from the first step of the run -/
theorem C19_first_plate_test_screen (cfg : Cfg) (hB : 1 ≤ cfg.B) {p : Prog} (hc : CRun cfg p) {l' : Launch}
    (hl : planLaunch cfg p = .ok l') (hw : l'.wf = .firstBatch) :
    ∃ l00 tf, p.flat.head? = some l00 ∧ l'.test = some ⟨0, 0, tf⟩ ∧ testScreenOf ⟨0, some (cfg.pubs l00)⟩ = some tf :=
  planLaunch_firstBatch_test cfg hB hc hl hw

/-- `C19_resume` in terms of actual uninterrupted executions only (retrospective mode): there is a number `n` of
    uninterrupted calls of the step function from nothing, such that the interrupted execution has completed
    exactly the same steps with the same launch records (in the same order, each once), every launch it ever
    made -- including interrupted ones -- is a launch of the uninterrupted execution, and its directory is the
    uninterrupted one plus at most one marker-less piece of junk. -/
theorem C19_same_as_uninterrupted (cfg : Cfg) (hmode : cfg.mode = .retrospective) (hB : 1 ≤ cfg.B)
    (hml : MarkerLast cfg) (sched : List (Option Nat)) :
    ∃ n : Nat,
      completedOf (runSched cfg sched Tree.empty []).events =
        completedOf (runSched cfg (List.replicate n none) Tree.empty []).events ∧
      launchedOf (runSched cfg (List.replicate n none) Tree.empty []).events =
        completedOf (runSched cfg (List.replicate n none) Tree.empty []).events ∧
      (∀ l ∈ launchedOf (runSched cfg sched Tree.empty []).events,
        l ∈ launchedOf (runSched cfg (List.replicate (n + 1) none) Tree.empty []).events) ∧
      (∃ p jk, JunkOK jk ∧ (runSched cfg sched Tree.empty []).tree.iters = treeIters cfg p jk ∧
        (runSched cfg (List.replicate n none) Tree.empty []).tree.iters = treeIters cfg p .none) := by
  obtain ⟨p, jk, h⟩ := runSched_inv cfg hml hB sched (GI.init cfg)
  obtain ⟨u, hu, hh, ht, hco, hla⟩ := uninterrupted_reaches cfg hml hB hmode h.crun
  refine ⟨p.flat.length, ?_, ?_, ?_, ⟨p, jk, h.junk, h.iters, ?_⟩⟩
  · rw [hu, hco, h.comp]
  · rw [hu, hco, hla]
  · intro l hl
    rcases h.launched l hl with h1 | ⟨hnf, hpl⟩
    · have hpre := runSched_events_prefix cfg [none] u.tree u.events
      rw [List.replicate_succ', runSched_append cfg _ _ _ _ (by rw [hu]; exact hh), hu]
      obtain ⟨c, hc⟩ := hpre
      rw [← hc, launchedOf_append, hla]
      exact List.mem_append_left _ h1
    · obtain ⟨u', hu', _, _, _, hla'⟩ := uninterrupted_reaches cfg hml hB hmode (CRun.push h.crun hnf hpl)
      rw [Prog.flat_push, List.length_append, List.length_singleton] at hu'
      rw [hu', hla', Prog.flat_push]
      simp
  · rw [hu, ht, cleanTree_eq]

/-- **prospective mode, under "marker last"** -- the analogue of `C19_same_as_uninterrupted`: an uninterrupted prospective
    execution is one process run per iteration (`usched`: `B` uninterrupted calls each, `main`'s loop ending by itself after
    the last plate of the batch, plus the calls of the current iteration).  For ANY process runs with ANY interruptions there
    is such an uninterrupted execution that has completed exactly the same steps with the same launch records (same order,
    each once); every launch ever made -- interrupted ones included -- is a launch of it or of the uninterrupted execution
    one step further; and the directory is the uninterrupted one plus at most one marker-less piece of junk. -/
theorem C19_same_as_uninterrupted_prospective (cfg : Cfg) (hmode : cfg.mode = .prospective) (hB : 1 ≤ cfg.B)
    (hml : MarkerLast cfg) (scheds : List (List (Option Nat))) :
    ∃ p : Prog, CRun cfg p ∧
      completedOf (runProcs cfg scheds Tree.empty []).2 = completedOf (runProcs cfg (usched cfg.B p) Tree.empty []).2 ∧
      launchedOf (runProcs cfg (usched cfg.B p) Tree.empty []).2 = completedOf (runProcs cfg (usched cfg.B p) Tree.empty []).2 ∧
      (∀ l ∈ launchedOf (runProcs cfg scheds Tree.empty []).2,
        l ∈ launchedOf (runProcs cfg (usched cfg.B p) Tree.empty []).2 ∨
        (CRun cfg (p.push cfg.B l) ∧ l ∈ launchedOf (runProcs cfg (usched cfg.B (p.push cfg.B l)) Tree.empty []).2)) ∧
      (∃ jk, JunkOK jk ∧ (runProcs cfg scheds Tree.empty []).1.iters = treeIters cfg p jk ∧
        (runProcs cfg (usched cfg.B p) Tree.empty []).1.iters = treeIters cfg p .none) := by
  obtain ⟨p, jk, h⟩ := runProcs_inv cfg hml hB scheds (GI.init cfg)
  obtain ⟨ht, hco, hla⟩ := uninterrupted_procs cfg hml hB hmode h.crun
  refine ⟨p, h.crun, ?_, ?_, ?_, ⟨jk, h.junk, h.iters, ?_⟩⟩
  · rw [hco, h.comp]
  · rw [hla, hco]
  · intro l hl
    rcases h.launched l hl with h1 | ⟨hnf, hpl⟩
    · left; rw [hla]; exact h1
    · right
      have hc' := CRun.push h.crun hnf hpl
      refine ⟨hc', ?_⟩
      rw [(uninterrupted_procs cfg hml hB hmode hc').2.2, Prog.flat_push]
      simp
  · rw [ht, cleanTree_eq]

/-- prospective mode has no "output screen of the predecessor": every step is started from the user's screen (the clause
    "never started from a screen other than the output of its immediate predecessor" is about retrospective mode, where it is
    `C19_every_launch_from_predecessor`) -/
theorem C19_prospective_launch_screen (cfg : Cfg) (hmode : cfg.mode = .prospective) {p : Prog} {l : Launch}
    (hl : planLaunch cfg p = .ok l) : l.screen = none ∧ l.test = none := by
  unfold planLaunch launchOf at hl
  rw [hmode] at hl
  simp only at hl
  split at hl
  · injection hl with hl; subst hl; exact ⟨rfl, rfl⟩
  · split at hl
    · cases hl
    · injection hl with hl; subst hl; exact ⟨rfl, rfl⟩

/-- the hypotheses of `C19_same_as_uninterrupted_prospective` are satisfiable (prospective mode, marker-last variant of the
    driver's pipeline) -/
example : ∃ cfg : Cfg, cfg.mode = .prospective ∧ 1 ≤ cfg.B ∧ MarkerLast cfg :=
  ⟨⟨.prospective, 2, fakePubs ⟨3, 2, 2, 0, false⟩⟩, rfl, by decide, fakePubs_markerLast _ _ _ (Or.inr rfl)⟩

/-! ## where "marker last" comes from -/

/-- **`MarkerLast` for the workflows as wired in the .nf files**: in the dependency graph of RUN_RETROSPECTIVE_STEP +
    RETROSPECTIVE (`next = false`) and of SELECT_NEXT_BATCH_PLATE + NEXT_BATCH_PLATE (`next = true`), executed in ANY order
    compatible with the dependencies, every process whose output a glob of the script can match (PREPARE: training / test
    screen, TRAIN_MODEL: thetas, CALCULATE_DISTANCE_MATRIX_CHUNK, SELECT_NEXT_PLATE: selected_plate, REVEAL_PLATE: advanced
    screen) -- and every score chunk -- has run before EXTRACT_SCREEN_METADATA starts.  Only EVALUATE_MODEL /
    ANALYZE_MODEL_EVALUATION are not forced before it (`Lemmas/OrchDag.lean` has a valid order with both after the marker):
    the model's `pubs` is the run up to the marker, which loses nothing the script can see. -/
theorem C19_visible_outputs_before_marker (w : Wf) (hck : 1 ≤ w.nck) {order : List Proc} (hv : ValidOrder w order)
    {m : Nat} (hm : order[m]? = some .mark) :
    (∃ j, j < m ∧ order[j]? = some .reveal) ∧ (∃ j, j < m ∧ order[j]? = some .select) ∧
    (∀ k, k < w.nck → ∃ j, j < m ∧ order[j]? = some (.score k)) ∧
    (w.next = false → (∀ c, c < w.nch → ∃ j, j < m ∧ order[j]? = some (.train c)) ∧
      (∀ k, k < w.nck → ∃ j, j < m ∧ order[j]? = some (.dist k)) ∧
      (w.init = true → 1 ≤ w.nch → ∃ j, j < m ∧ order[j]? = some .prepare)) :=
  visible_before_marker w hck hv hm

/-! ## the executions the driver replays are instances of the theorems -/

/-- the concrete pipeline of the correspondence run (`fakePubs`, what `driver_c19` executes for every `run` line and
    what `harness/c19.py` mirrors under the real script) satisfies `MarkerLast` in retrospective mode and in prospective
    mode with the marker-last variant: the hypotheses of `C19_resume` / `C19_resume_partial` hold for exactly the
    executions that are compared with the implementation -/
theorem C19_driver_pipeline_markerLast (mode : Mode) (B : Nat) (fk : Fake)
    (h : mode = .retrospective ∨ fk.mfirst = false) : MarkerLast ⟨mode, B, fakePubs fk⟩ :=
  fakePubs_markerLast mode B fk h

/-- ... hence every retrospective `run` line of the driver (any batch size ≥ 1, any fake-pipeline parameters, any
    interruption schedule) ends in a `Resumed` state -/
theorem C19_resume_driver (B : Nat) (hB : 1 ≤ B) (fk : Fake) (sched : List (Option Nat)) :
    Resumed ⟨.retrospective, B, fakePubs fk⟩
      (runSched ⟨.retrospective, B, fakePubs fk⟩ sched Tree.empty []).tree
      (runSched ⟨.retrospective, B, fakePubs fk⟩ sched Tree.empty []).events :=
  C19_resume ⟨.retrospective, B, fakePubs fk⟩ rfl hB (fakePubs_markerLast _ B fk (Or.inl rfl)) sched

/-! ## a concrete pipeline: the retrospective simulation reveals every plate exactly once and stops

`simCfg B sc` (`Model/OrchSim.lean`) instantiates the abstract `pubs`: a screen file holds the bitmask of its unobserved
plates, a step selects a plate with an ARBITRARY selection function `sc.sel` (of the unobserved mask and the excludes;
`SelOK`: it returns an unobserved plate whenever there is one), clears that bit in the advanced screen and records the
number of unobserved plates left in `screen_metadata.json`. -/

/-- **For every batch size ≥ 1, every number of plates, every selection function and EVERY interruption schedule**
    (`r` = the execution of `sched`, any number of interruptions at any atomic actions, reruns after removing what the
    script names):
    (a) the completed steps reveal pairwise distinct plates, each unobserved at the start;
    (b) `n_unobserved_plates` after the `i`-th completed step is `(unobserved at the start) - (i+1)`: one less per step;
    (c) if `main`'s loop has ended by itself (`run_next_retrospective_step` returned False) then exactly as many steps
        have completed as there were unobserved plates -- none is left, and no step ran after the last plate;
    (d) every schedule that goes on to let each call finish (`n ≥ 2·plates + 2` uninterrupted calls appended: one per
        remaining step, one to name a partial directory, one to notice the end) DOES end by itself, with every plate
        revealed exactly once. -/
theorem C19_simulation_terminates_all_revealed (B : Nat) (hB : 1 ≤ B) (sc : SimCfg) (hsel : SelOK sc)
    (h0 : 0 < cntBits sc.N sc.M0) (sched : List (Option Nat)) :
    ((completedOf (runSched (simCfg B sc) sched Tree.empty []).events).map (selOf sc)).Nodup ∧
    (∀ l ∈ completedOf (runSched (simCfg B sc) sched Tree.empty []).events,
      sc.M0.testBit (selOf sc l) = true ∧ selOf sc l < sc.N ∧
      findKind .selected ((simCfg B sc).pubs l) = some ⟨.selected, selOf sc l⟩) ∧
    (∀ i l, (completedOf (runSched (simCfg B sc) sched Tree.empty []).events)[i]? = some l →
      metaOf ⟨l.plate, some ((simCfg B sc).pubs l)⟩ = some (cntBits sc.N sc.M0 - (i + 1))) ∧
    (completedOf (runSched (simCfg B sc) sched Tree.empty []).events).length ≤ cntBits sc.N sc.M0 ∧
    ((runSched (simCfg B sc) sched Tree.empty []).halted = true →
      (completedOf (runSched (simCfg B sc) sched Tree.empty []).events).length = cntBits sc.N sc.M0) ∧
    (∀ n, 2 * cntBits sc.N sc.M0 + 2 ≤ n →
      (runSched (simCfg B sc) (sched ++ List.replicate n none) Tree.empty []).halted = true ∧
      (completedOf (runSched (simCfg B sc) (sched ++ List.replicate n none) Tree.empty []).events).length =
        cntBits sc.N sc.M0) := by
  have hml := sim_markerLast sc B
  have hB' : 1 ≤ (simCfg B sc).B := hB
  -- the facts (a)-(c) for an arbitrary schedule
  have facts : ∀ s : List (Option Nat),
      ∃ p jk, GI (simCfg B sc) (runSched (simCfg B sc) s Tree.empty []).tree (runSched (simCfg B sc) s Tree.empty []).events p jk ∧
        SimInv sc p ∧
        ((runSched (simCfg B sc) s Tree.empty []).halted = true → p.flat.length = cntBits sc.N sc.M0) := by
    intro s
    obtain ⟨p, jk, hg, hfin⟩ := runSched_inv_halt (simCfg B sc) hml hB' rfl s (GI.init _)
    have hinv := simInv sc B hB hsel h0 hg.crun
    refine ⟨p, jk, hg, hinv, ?_⟩
    intro hh
    have hf := hfin hh
    have hne : p.flat ≠ [] := by
      intro e
      have hn := (nextOfProg_of_CRun (simCfg B sc) hg.crun).2 e
      unfold isFinished at hf
      rw [hn] at hf
      exact absurd hf.2 (by simp)
    have := (sim_finished_iff sc B hg.crun hne).mp hf
    have hc := hinv.count
    omega
  obtain ⟨p, jk, hg, hinv, hhalt⟩ := facts sched
  rw [hg.comp]
  refine ⟨hinv.nodup, ?_, ?_, ?_, hhalt, ?_⟩
  · intro l hl
    obtain ⟨_, h2, h3⟩ := hinv.revealed l hl
    refine ⟨h2, h3, ?_⟩
    simp only [simCfg]
    cases hw : l.wf <;> simp [simPubs, simCore, hw, findKind]
  · intro i l hi
    have := hinv.markers i l hi
    simp only [simCfg]
    rw [sim_metaOf] at this ⊢
    exact this
  · have := hinv.count; omega
  · intro n hn
    obtain ⟨p', jk', hg', _, hhalt'⟩ := facts (sched ++ List.replicate n none)
    have hhalted : (runSched (simCfg B sc) (sched ++ List.replicate n none) Tree.empty []).halted = true := by
      by_cases hh : (runSched (simCfg B sc) sched Tree.empty []).halted = true
      · rw [runSched_append_halted _ _ _ _ _ hh]; exact hh
      · rw [runSched_append _ _ _ _ _ (by simpa using hh)]
        apply sim_progress sc B hB hsel h0 n hg
        have hc := hinv.count
        have : junkW jk ≤ 1 := by cases jk <;> simp [junkW]
        omega
    refine ⟨hhalted, ?_⟩
    rw [hg'.comp]
    exact hhalt' hhalted

/-- the hypotheses are satisfiable: five plates, "lowest unobserved plate id" as the selection function -/
def demoSim : SimCfg := ⟨5, 0b10111, fun m _ => (List.range 5).find? (fun q => m.testBit q) |>.getD 0⟩

example : SelOK demoSim ∧ 0 < cntBits demoSim.N demoSim.M0 := by
  refine ⟨?_, by decide⟩
  rintro m ex ⟨q, hq, hb⟩
  simp only [demoSim] at hq ⊢
  cases h : (List.range 5).find? (fun q => m.testBit q) with
  | none =>
    rw [List.find?_eq_none] at h
    exact absurd hb (by simpa using h q (List.mem_range.mpr hq))
  | some s =>
    have h1 := List.find?_some h
    have h2 := List.mem_of_find?_eq_some h
    simp only [Option.getD_some]
    exact ⟨List.mem_range.mp h2, h1⟩

/-- ... and the instance runs: batch size 2, an interruption after 9 atomic actions, then uninterrupted calls -/
example :
    let r := runSched (simCfg 2 demoSim) [some 9, none, none, none, none, none, none, none] Tree.empty []
    r.halted = true ∧ (completedOf r.events).map (selOf demoSim) = [0, 1, 2, 4] := by
  decide

/-! ## prospective mode: the marker is published first -/

/-- a pipeline whose `prospective` workflow publishes the completion marker before the step's outputs (as
    `prospective/main.nf` allows), every other workflow publishing it last -/
def demoPubs (l : Launch) : List File :=
  match l.wf with
  | .prospFirst => [⟨.marker, 3⟩, ⟨.thetas 0, 7⟩, ⟨.dist 0, 8⟩, ⟨.selected, 4⟩]
  | _ => [⟨.training, 1⟩, ⟨.thetas 0, 7⟩, ⟨.dist 0, 8⟩, ⟨.selected, 5⟩, ⟨.advanced, 6⟩, ⟨.marker, 2⟩]

def cfgProsp (B : Nat) : Cfg := ⟨.prospective, B, demoPubs⟩

def cfgRetro (B : Nat) : Cfg := ⟨.retrospective, B, demoPubs⟩

/-- the hypothesis of `C19_resume` is satisfiable (by this very pipeline, in retrospective mode) -/
theorem demo_markerLast_retro (B : Nat) : MarkerLast (cfgRetro B) := by
  intro l hl
  refine ⟨[⟨.training, 1⟩, ⟨.thetas 0, 7⟩, ⟨.dist 0, 8⟩, ⟨.selected, 5⟩, ⟨.advanced, 6⟩], 2, ?_, by decide⟩
  cases hw : l.wf <;> simp [cfgRetro, demoPubs, hw, allowed] at hl ⊢

/-- ... and is violated by the prospective workflow -/
theorem demo_not_markerLast_prosp (B : Nat) : ¬ MarkerLast (cfgProsp B) := by
  intro h
  obtain ⟨xs, m, hp, hx⟩ := h ⟨.prospFirst, 0, 0, none, none, [], none⟩ rfl
  simp only [cfgProsp, demoPubs] at hp
  cases xs with
  | nil => simp at hp
  | cons x xs =>
    simp only [List.cons_append, List.cons.injEq] at hp
    exact hx x (by simp) (by rw [← hp.1])

/-- **counterexample without "marker last"** (batch size 1): the first process run is interrupted after 5 atomic
    actions (`mkdir outdir`, `mkdir iter_0`, `mkdir plate_0`, `mkdir <name>`, `screen_metadata.json`); the rerun
    takes `iter_0/plate_0` for complete and launches step `(1,0)`: step `(0,0)` never completes, its selection is
    never recorded, an index is skipped -- the conclusion of `C19_resume_partial` fails. -/
theorem C19_prospective_marker_first_counterexample :
    let r := runProcs (cfgProsp 1) [[some 5], [none]] Tree.empty []
    (launchedOf r.2).map (fun l => (l.iter, l.plate)) = [(0, 0), (1, 0)] ∧
    (completedOf r.2).map (fun l => (l.iter, l.plate)) = [(1, 0)] ∧
    r.1.iters = [⟨0, [⟨0, some [⟨.marker, 3⟩]⟩]⟩, ⟨1, [⟨0, some (demoPubs ⟨.prospFirst, 1, 0, none, none, [], none⟩)⟩]⟩] ∧
    ¬ Resumed (cfgProsp 1) r.1 r.2 := by
  have h1 : (launchedOf (runProcs (cfgProsp 1) [[some 5], [none]] Tree.empty []).2).map (fun l => (l.iter, l.plate))
      = [(0, 0), (1, 0)] := by decide
  have h2 : (completedOf (runProcs (cfgProsp 1) [[some 5], [none]] Tree.empty []).2).map (fun l => (l.iter, l.plate))
      = [(1, 0)] := by decide
  refine ⟨h1, h2, by decide, ?_⟩
  rintro ⟨p, jk, _, _, hsteps, _⟩
  have h3 : (completedOf (runProcs (cfgProsp 1) [[some 5], [none]] Tree.empty []).2).map (stepNo (cfgProsp 1).B) = [1] := by
    decide
  rw [h3] at hsteps
  have := congrArg List.length hsteps
  simp at this
  rw [← this] at hsteps
  simp [List.range_succ] at hsteps

/-- batch size 2, same interruption: the rerun plans step `(0,1)` and dies with "No thetas or dist_chunks found" -/
theorem C19_prospective_marker_first_counterexample_batch2 :
    (runProcs (cfgProsp 2) [[some 5], [none]] Tree.empty []).2 =
      [.launched ⟨.prospFirst, 0, 0, none, none, [], none⟩, .failed .noChains] := by
  decide

/-- the same pipeline and the same interruption in retrospective mode (where `C19_resume` applies): the rerun names
    the incomplete directory, the user removes it, and the run continues with the uninterrupted launch records -/
example :
    (completedOf (runSched (cfgRetro 2) [some 5, none, none, none, none] Tree.empty []).events).map
        (fun l => (l.wf, l.iter, l.plate)) =
      [(.initial, 0, 0), (.nextPlate, 0, 1), (.firstBatch, 1, 0)] ∧
    (runSched (cfgRetro 2) [some 5, none, none, none, none] Tree.empty []).events.filterMap
        (fun e => match e with | .userRemoved i j => some (i, j) | _ => none) = [(0, 0)] := by
  decide

/-- the hypotheses of `C19_examine_correct` / `C19_predecessor` are satisfiable by a non-trivial run: three
    uninterrupted calls complete three steps `p` with `CRun p` -/
example : ∃ p, CRun (cfgRetro 2) p ∧ p.flat.length = 3 ∧ HasMarker (cfgRetro 2) ∧ JunkOK (.plate (some [⟨.training, 1⟩])) := by
  obtain ⟨p, jk, h⟩ := runSched_inv (cfgRetro 2) (demo_markerLast_retro 2) (by decide) [none, none, none] (GI.init _)
  refine ⟨p, h.crun, ?_, (demo_markerLast_retro 2).hasMarker, by simp [JunkOK, findKind]⟩
  rw [← h.comp]
  decide

end Batchie.Props.C19
