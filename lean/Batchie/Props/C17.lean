/-
  C17 -- sampling follows the burn-in/thinning schedule; each chain gets its own stream.

  The schedule theorems are about `Batchie.Gen.Sampling.run`, the translator's output for the
  MCMC branch of `batchie.sampling.sample` (regenerated from /repo on every run).  Event codes of
  the trace `(run n b t).out`: 2 = `model.reset_model()`, 3 = `model.set_rng(rng)`,
  0 = `model.step()`, 1 = `results.add_theta(model.get_model_state())`.

  The generator theorems are about the hand model `Batchie.Sampling` of the two lines the
  translator keeps as text (`C17_rng_bindings` pins that text).

  Not proved here (trusted, numpy's design): distinct spawn keys give non-overlapping streams.
-/
/-
  CLAUSE MAP (property text -> theorem)
  1.  sampling resets the model ............................................ C17_schedule / C17_counts (trace starts reset, set_rng; MCMC branch,
                                                                             generated); VI: C17_vi_generated (generated), C17_vi_once (hand model)
  2.  advances it exactly b + n*t steps .................................... C17_counts (count of step events), C17_schedule
  3.  records the state after steps b+t, ..., b+n*t ........................ C17_record_positions
  4.  leaving the collection complete ...................................... C17_counts (exactly n records for n_thetas = n); VI: C17_vi_generated
      holder capacity check (add_theta refuses the n+1-th) .................. hand model viRun only (C17_vi_once, C17_vi_model_agrees_with_generated)
  5.  generator depends only on (seed, n_chains, chain_index); identical for identical triples
                                                                             C17_rng_function_of_triple (a function of (seed, chain_index); the two
                                                                             source lines it models are pinned by C17_rng_bindings)
  6.  a different stream for every other chain index ........................ C17_spawn_keys_distinct (distinct spawn keys, none the root key)
      ... non-overlapping ................................................... harness-only: numpy's SeedSequence/PCG64 design guarantee (trusted)
  7.  variational models are asked for exactly n samples once ............... C17_vi_generated (generated from the source: one `sample` event with
                                                                             argument n_thetas), C17_vi_once, bridge C17_vi_model_agrees_with_generated,
                                                                             generator line pinned by C17_vi_bindings
  8.  quantifier b >= 0, t >= 1, n >= 1 (n = 0 included), all seeds / chains  all theorems are for arbitrary naturals / Ints; refusals outside the
                                                                             domain: C17_rng_refusals; thin = 0: C17_thin_zero_remark
  9.  set_rng exactly once, after reset, before the first step, for every initial model state  C17_set_rng_once
  10. seed 0 is a seed like any other ....................................... C17_seed_zero
  Regression (not a clause): S7-C17 set_rng only if the model has no generator  C17_S7_keep_rng_counterexample
  Regression (not a clause): S5-C17 `if not seed: seed = None` ................ C17_S5_seed_falsy_counterexample
  harness-only: object identity of the generator / model reuse across calls in one process (no functional model of object state).
-/
import Batchie.Lemmas.SamplingSchedule
import Batchie.Lemmas.SamplingVI

namespace Batchie.Props.C17

open Batchie.Gen.Sampling
open Batchie.Sampling
open Batchie.Lemmas.SamplingSchedule
open Batchie.Proto (Err)

/-- **Schedule.** For every burn-in `b ≥ 0`, thinning `t ≥ 1` and requested count `n ≥ 0`
    (so in particular every `n ≥ 1`): no error flag (the `% thin` never divides by zero), and the
    event trace is exactly: reset, set_rng, `b` steps, then `n` blocks each consisting of `t`
    steps followed by one record. -/
theorem C17_schedule (n b t : Nat) (ht : 1 ≤ t) :
    (run (n : Int) (b : Int) (t : Int)).err = false ∧
    (run (n : Int) (b : Int) (t : Int)).out =
      [2, 3] ++ List.replicate b (0 : Int)
        ++ (List.replicate n (List.replicate t (0 : Int) ++ [1])).flatten := by
  unfold run
  rw [body_eq]
  simp only []
  rw [pyRange_zero_one b, burn_fold]
  simp only [List.length_map, List.length_range]
  rw [show ((n : Int) * (t : Int)) = ((n * t : Nat) : Int) by simp, pyRange_zero_one (n * t)]
  have h := thin_fold t ht (List.range (n * t))
    { n_thetas := (n : Int), n_burnin := (b : Int), thin := (t : Int), total_steps := ((n * t : Nat) : Int),
      out := [] ++ [(2 : Int)] ++ [(3 : Int)] ++ List.replicate b (0 : Int) } rfl
  refine ⟨h.2, ?_⟩
  rw [h.1, flatMap_blocks t ht n]
  rfl

/-- the same for the `Int` arguments the generated function takes (Python ints) -/
theorem C17_schedule_int (n b t : Int) (hn : 0 ≤ n) (hb : 0 ≤ b) (ht : 1 ≤ t) :
    (run n b t).err = false ∧
    (run n b t).out =
      [2, 3] ++ List.replicate b.toNat (0 : Int)
        ++ (List.replicate n.toNat (List.replicate t.toNat (0 : Int) ++ [1])).flatten := by
  have h := C17_schedule n.toNat b.toNat t.toNat (by omega)
  rwa [Int.toNat_of_nonneg hn, Int.toNat_of_nonneg hb, Int.toNat_of_nonneg (by omega)] at h

/-- **Where the records are.** The number of model steps taken when each state is recorded is
    `b + t, b + 2t, …, b + n·t`, in this order -- exactly `n` records, nowhere else. -/
theorem C17_record_positions (n b t : Nat) (ht : 1 ≤ t) :
    recordPositions (run (n : Int) (b : Int) (t : Int)).out
      = (List.range n).map (fun i => b + (i + 1) * t) := by
  rw [(C17_schedule n b t ht).2]
  unfold recordPositions
  rw [List.append_assoc, rpf_append, rpf_append, rpf_replicate_zero]
  have hb := rpf_blocks (0 + ([2, 3] : List Int).count 0 + (List.replicate b (0 : Int)).count 0) t n
  unfold block at hb
  rw [hb]
  simp [recordPositionsFrom]

/-- **Counts.** One reset, one set_rng (both before every step), `b + n·t` steps in total and
    exactly `n` records: the holder of `n_thetas = n` ends complete. -/
theorem C17_counts (n b t : Nat) (ht : 1 ≤ t) :
    (∃ rest, (run (n : Int) (b : Int) (t : Int)).out = 2 :: 3 :: rest ∧ ∀ e ∈ rest, e = 0 ∨ e = 1) ∧
    (run (n : Int) (b : Int) (t : Int)).out.count 0 = b + n * t ∧
    (run (n : Int) (b : Int) (t : Int)).out.count 1 = n := by
  have hlen : (recordPositions (run (n : Int) (b : Int) (t : Int)).out).length = n := by
    rw [C17_record_positions n b t ht]; simp
  rw [(C17_schedule n b t ht).2] at *
  refine ⟨⟨List.replicate b (0 : Int) ++ (List.replicate n (List.replicate t (0 : Int) ++ [1])).flatten,
      by simp, ?_⟩, ?_, ?_⟩
  · intro e he
    rcases List.mem_append.1 he with h | h
    · exact Or.inl (List.eq_of_mem_replicate h)
    · obtain ⟨l, hl, hel⟩ := List.mem_flatten.1 h
      have := List.eq_of_mem_replicate hl
      subst this
      rcases List.mem_append.1 hel with h1 | h1
      · exact Or.inl (List.eq_of_mem_replicate h1)
      · exact Or.inr (by simpa using h1)
  · have := count_blocks t n
    unfold block at this
    rw [List.count_append, List.count_append, this]
    simp
  · have h1 : ∀ m : Nat, ((List.replicate m (List.replicate t (0 : Int) ++ [1])).flatten).count (1 : Int) = m := by
      intro m
      induction m with
      | zero => simp
      | succ m ih =>
        rw [List.replicate_succ, List.flatten_cons, List.count_append, ih]
        simp [List.count_replicate]
        omega
    rw [List.count_append, List.count_append, h1]
    simp [List.count_replicate]

/-- non-vacuity / concrete instance: b = 1, t = 2, n = 2 -/
example : (run 2 1 2).out = [2, 3, 0, 0, 0, 1, 0, 0, 1] ∧ recordPositions (run 2 1 2).out = [3, 5] := by
  decide

/-- thin = 0 (outside the property's domain): zero steps after burn-in, nothing recorded --
    the holder stays incomplete for n ≥ 1; no exception is raised because the loop is empty. -/
theorem C17_thin_zero_remark (n b : Nat) :
    (run (n : Int) (b : Int) 0).out = [2, 3] ++ List.replicate b (0 : Int) ∧
    (run (n : Int) (b : Int) 0).err = false := by
  unfold run
  rw [body_eq]
  simp only []
  rw [pyRange_zero_one b, burn_fold]
  simp [pyRange_neg]

/-- **The text of the generator lines** that the translator does not interpret: the hand model
    below is a model of exactly these two bindings.  Any edit to them (e.g. `seeds[0]`) changes
    the generated definition and this `rfl` no longer checks. -/
theorem C17_rng_bindings :
    opaqueBindings =
      [("seeds", "numpy.random.SeedSequence(seed).spawn(n_chains)"),
       ("rng", "numpy.random.default_rng(seeds[chain_index])")] := rfl

/-- the only statement the translator drops is the logging line -/
theorem C17_skipped_is_logging :
    skippedStatements =
      ["logger.info('Will run {} total iterations on model {}'.format(results.n_thetas * thin + n_burnin, model))"] := rfl

/-! ### generator dataflow -/

theorem chainSeed_eq (seed nChains i : Int) (hs : 0 ≤ seed) (hi : 0 ≤ i) (hin : i < nChains) :
    chainSeed seed nChains i = .ok { entropy := seed, spawnKey := [i.toNat], nChildrenSpawned := 0 } := by
  unfold chainSeed seedSequence pyGet SeedSeq.spawn
  have h1 : ¬ seed < 0 := by omega
  have h2 : ¬ i < 0 := by omega
  have h3 : i.toNat < nChains.toNat := by omega
  simp [h1, h2, h3]

/-- **The generator is a function of (seed, chain_index) only**: for every interpretation `mk`
    of `default_rng`, every seed ≥ 0 and chain index `0 ≤ i < n_chains`, the generator handed to
    the model is `mk seed [i]` -- the same for the same triple, and independent of `n_chains`. -/
theorem C17_rng_function_of_triple {γ : Type} (mk : Int → List Nat → γ)
    (seed nChains i : Int) (hs : 0 ≤ seed) (hi : 0 ≤ i) (hin : i < nChains) :
    chainRng mk seed nChains i = .ok (mk seed [i.toNat]) ∧
    ∀ nChains' : Int, i < nChains' → chainRng mk seed nChains' i = chainRng mk seed nChains i := by
  have h : ∀ m : Int, i < m → chainRng mk seed m i = .ok (mk seed [i.toNat]) := by
    intro m hm
    unfold chainRng
    rw [chainSeed_eq seed m i hs hi hm]
  exact ⟨h nChains hin, fun m hm => by rw [h m hm, h nChains hin]⟩

/-- **Different chains get different spawn keys** (and the same entropy); no chain's key is the
    root key `[]` that `default_rng(seed)` itself (the VI branch) uses. -/
theorem C17_spawn_keys_distinct (seed nChains i j : Int) (hs : 0 ≤ seed)
    (hi : 0 ≤ i) (hin : i < nChains) (hj : 0 ≤ j) (hjn : j < nChains) (hij : i ≠ j) :
    ∃ si sj, chainSeed seed nChains i = .ok si ∧ chainSeed seed nChains j = .ok sj ∧
      si.spawnKey ≠ sj.spawnKey ∧ si.spawnKey ≠ [] ∧ si.entropy = seed ∧ sj.entropy = seed := by
  refine ⟨_, _, chainSeed_eq seed nChains i hs hi hin, chainSeed_eq seed nChains j hs hj hjn, ?_, ?_, rfl, rfl⟩
  · simp; omega
  · simp

example : chainSeed 5 3 1 = .ok { entropy := 5, spawnKey := [1] } ∧
    chainSeed 5 7 1 = .ok { entropy := 5, spawnKey := [1] } ∧
    chainSeed 5 3 2 = .ok { entropy := 5, spawnKey := [2] } :=
  ⟨chainSeed_eq 5 3 1 (by decide) (by decide) (by decide), chainSeed_eq 5 7 1 (by decide) (by decide) (by decide),
   chainSeed_eq 5 3 2 (by decide) (by decide) (by decide)⟩

/-- out-of-range chain index and negative seed are refused (as numpy/Python do) -/
theorem C17_rng_refusals (seed nChains i : Int) :
    (seed < 0 → chainSeed seed nChains i = .error Err.valueError) ∧
    (0 ≤ seed → 0 ≤ nChains → nChains ≤ i → chainSeed seed nChains i = .error Err.indexError) := by
  constructor
  · intro h; simp [chainSeed, seedSequence, h]
  · intro hs hn hi
    unfold chainSeed seedSequence pyGet SeedSeq.spawn
    have h1 : ¬ seed < 0 := by omega
    have h2 : ¬ i < 0 := by omega
    have h3 : (List.range nChains.toNat)[i.toNat]? = none :=
      List.getElem?_eq_none (by simp; omega)
    simp [h1, h2, h3]

/-! ### `set_rng` is unconditional; seed 0 is a seed (seeded changes S7-C17, S5-C17) -/

/-- **`set_rng` exactly once, after the reset and before the first step, for EVERY initial model state** (S7-C17, positive
    half).  The generated trace does not depend on any model state at all: for all `n`, `b`, `t ≥ 1` it starts `reset, set_rng`,
    contains `set_rng` exactly once and nothing but steps/records afterwards; and whatever generator the model held before
    (`held`, present or not) it steps with the one handed over. -/
theorem C17_set_rng_once (n b t : Nat) (ht : 1 ≤ t) :
    (run (n : Int) (b : Int) (t : Int)).out.take 2 = [2, 3] ∧
    (run (n : Int) (b : Int) (t : Int)).out.count 3 = 1 ∧
    (∀ e ∈ (run (n : Int) (b : Int) (t : Int)).out.drop 2, e = 0 ∨ e = 1) ∧
    (∀ {γ : Type} (held : Option γ) (handed : γ), rngInEffect held handed = handed) := by
  obtain ⟨⟨rest, hout, hrest⟩, _, _⟩ := C17_counts n b t ht
  refine ⟨by rw [hout]; rfl, ?_, by rw [hout]; exact hrest, fun _ _ => rfl⟩
  rw [hout]
  have h3 : rest.count (3 : Int) = 0 := by
    rw [List.count_eq_zero]
    intro h
    rcases hrest 3 h with h' | h' <;> cases h'
  simp [h3]

/-- **Regression (S7-C17, not a clause):** with `set_rng` only when the model has no generator, a model that already holds one
    is never handed this call's generator (no `set_rng` event in its trace) and steps with the old one -- the stream is then
    not a function of (seed, n_chains, chain_index): two models holding different generators draw differently for the same triple,
    while the real dataflow gives both the generator handed over. -/
theorem C17_S7_keep_rng_counterexample :
    (traceKeepRng true 1 0 1).count 3 = 0 ∧ traceKeepRng false 1 0 1 = (run 1 0 1).out ∧
    rngInEffectKeep (some (123 : Nat)) 7 = 123 ∧ rngInEffectKeep (some (123 : Nat)) 7 ≠ rngInEffectKeep (some 456) 7 ∧
    rngInEffect (some (123 : Nat)) 7 = rngInEffect (some 456) 7 := by
  decide

/-- **Seed 0 is a seed like any other** (S5-C17, positive half): chain `i` of seed 0 gets entropy 0 and spawn key `[i]`. -/
theorem C17_seed_zero {γ : Type} (mk : Int → List Nat → γ) (nChains i : Int) (hi : 0 ≤ i) (hin : i < nChains) :
    chainRng mk 0 nChains i = .ok (mk 0 [i.toNat]) :=
  (C17_rng_function_of_triple mk 0 nChains i (by decide) hi hin).1

/-- **Regression (S5-C17, not a clause):** with `if not seed: seed = None`, seed 0 is replaced by fresh OS entropy: the same
    triple (0, 2, 0) gives different generators in two runs (entropy 11 vs 12), neither the one of seed 0. -/
theorem C17_S5_seed_falsy_counterexample :
    (chainSeedFalsy 11 0 2 0).toOption ≠ (chainSeedFalsy 12 0 2 0).toOption ∧
    (chainSeedFalsy 11 0 2 0).toOption ≠ (chainSeed 0 2 0).toOption ∧
    (chainSeed 0 2 0).toOption = some { entropy := 0, spawnKey := [0] } ∧
    (chainSeedFalsy 11 5 2 0).toOption = (chainSeed 5 2 0).toOption := by
  decide

/-! ### VI branch -/

/-- **VI models are asked once.** For every seed ≥ 0 and every `n` (in use `n ≥ 1`): reset, then
    `set_rng(default_rng(seed))` (root key), then exactly one `sample(num_samples = n)` call; if
    the model returns `n` samples (its documented contract) there follow exactly `n` `add_theta`
    and no error; whatever it returns, `sample` is called exactly once, with argument `n`. -/
theorem C17_vi_once (seed n : Int) (hs : 0 ≤ seed) :
    viRun seed n n.toNat
      = ([VIEvent.reset, .setRng seed [], .sampleCall n] ++ (List.range n.toNat).map VIEvent.addTheta, none)
    ∧ ∀ returned : Nat,
        (viRun seed n returned).1.take 3 = [VIEvent.reset, .setRng seed [], .sampleCall n] ∧
        ((viRun seed n returned).1.filter (fun e => match e with | .sampleCall _ => true | _ => false)).length = 1 ∧
        ((viRun seed n returned).1.filter (fun e => match e with | .addTheta _ => true | _ => false)).length
          = min returned n.toNat := by
  have h1 : ¬ seed < 0 := by omega
  constructor
  · simp [viRun, h1]
  · intro r
    have hf : ∀ m : Nat, (List.filter (fun e => match e with | VIEvent.sampleCall _ => true | _ => false)
        ((List.range m).map VIEvent.addTheta)) = [] := by
      intro m; simp [List.filter_eq_nil_iff]
    have hg : ∀ m : Nat, (List.filter (fun e => match e with | VIEvent.addTheta _ => true | _ => false)
        ((List.range m).map VIEvent.addTheta)).length = m := by
      intro m
      rw [List.filter_eq_self.2 (by simp)]
      simp
    unfold viRun
    by_cases hr : r ≤ n.toNat
    · simp only [h1, if_false, hr, if_true]
      refine ⟨by simp, ?_, ?_⟩
      · rw [List.filter_append, hf]; simp
      · rw [List.filter_append, List.length_append, hg]; simp; omega
    · simp only [h1, if_false, hr]
      refine ⟨by simp, ?_, ?_⟩
      · rw [List.filter_append, hf]; simp
      · rw [List.filter_append, List.length_append, hg]; simp; omega

example : viRun 7 3 3 = ([.reset, .setRng 7 [], .sampleCall 3, .addTheta 0, .addTheta 1, .addTheta 2], none) := by
  decide

/-! ### VI branch under the translator -/

/-- **The VI branch as generated from the source** (`Batchie.Gen.SamplingVI.run n r`, `r` = length of the list the model's
    `sample` returned; event codes 2 = reset_model, 3 = set_rng, `4, m` = `model.sample(num_samples = m)`, 1 = add_theta):
    for EVERY `n` and `r` the trace is reset, set_rng, ONE `sample` call whose argument is `n = results.n_thetas`, then one
    `add_theta` per returned element; in particular, when the model honours its contract (`r = n`), exactly `n` samples are
    added -- the holder of `n_thetas = n` ends complete -- and `sample` was asked exactly once, for exactly `n`. -/
theorem C17_vi_generated (n : Int) (r : Nat) :
    (Batchie.Gen.SamplingVI.run n (r : Int)).out = [2, 3, 4, n] ++ List.replicate r (1 : Int) ∧
    (Batchie.Gen.SamplingVI.run n (r : Int)).err = false ∧
    (0 ≤ n → (Batchie.Gen.SamplingVI.run n n).out = [2, 3, 4, n] ++ List.replicate n.toNat (1 : Int)) := by
  obtain ⟨h1, h2⟩ := Batchie.Lemmas.SamplingVI.run_out n r
  refine ⟨h1, h2, fun hn => ?_⟩
  have := (Batchie.Lemmas.SamplingVI.run_out n n.toNat).1
  rwa [Int.toNat_of_nonneg hn] at this

/-- the only line of the VI branch the translator keeps as text: the generator is `default_rng(seed)` -/
theorem C17_vi_bindings :
    Batchie.Gen.SamplingVI.opaqueBindings = [("rng", "numpy.random.default_rng(seed)")] := rfl

/-- event codes of the hand model's VI events, as the translator numbers them -/
def viCode : VIEvent → List Int
  | .reset => [2]
  | .setRng _ _ => [3]
  | .sampleCall m => [4, m]
  | .addTheta _ => [1]

/-- **Bridge**: the hand model `viRun` (which adds the seed check and the holder's capacity check to the picture) and the
    generated VI branch describe the same events whenever the seed is valid and the model returns at most `n_thetas`
    samples (so in particular under the contract `r = n`). -/
theorem C17_vi_model_agrees_with_generated (seed n : Int) (r : Nat) (hs : 0 ≤ seed) (hr : r ≤ n.toNat) :
    (viRun seed n r).1.flatMap viCode = (Batchie.Gen.SamplingVI.run n (r : Int)).out ∧ (viRun seed n r).2 = none := by
  have h1 : ¬ seed < 0 := by omega
  rw [(Batchie.Lemmas.SamplingVI.run_out n r).1]
  unfold viRun
  simp only [h1, if_false, hr, if_true]
  refine ⟨?_, by first | rfl | trivial⟩
  rw [List.flatMap_append]
  have : ∀ m : Nat, ((List.range m).map VIEvent.addTheta).flatMap viCode = List.replicate m (1 : Int) := by
    intro m
    induction m with
    | zero => simp
    | succ m ih =>
      rw [List.range_succ, List.map_append, List.flatMap_append, ih]
      simp [viCode, List.replicate_succ']
  rw [this]
  simp [viCode]

example : (Batchie.Gen.SamplingVI.run 3 3).out = [2, 3, 4, 3, 1, 1, 1] := by decide

end Batchie.Props.C17
