/-
  C19 -- the directory the script names, and regression lemmas for seeded changes S5 / S6 / S7-C19 (model growth pass).

  Positive (general) theorems: `C19_named_directory`, `C19_remove_named_resumes`, `C19_named_is_what_is_removed`,
  `C19_advice_names_plate_dir`.  Regression lemmas refute the property on a concrete witness for a definition that is NOT in
  /repo: `C19_S7_naming_iteration_dir_counterexample`, `C19_S6_lexicographic_scan_counterexample`,
  `C19_S5_process_counter_counterexample`.
-/
import Batchie.Lemmas.OrchNamed
import Batchie.Generated.Orch

namespace Batchie.Props.C19
open Batchie.Orchestrator

/-- **the directory the script names** (`namedIncomplete`, the `plate_dir` of the scan's "Consider deleting this directory ..."
    error): on every directory an execution can reach, for every batch size ≥ 1 and both modes, a directory is named exactly
    when a partial plate directory exists, and it is that directory -- `iter_<complete iterations>/plate_<complete plates of
    the batch>`, which never holds a completed step (completed steps are numbered below it: `C19_resume`'s `UserSafe`). -/
theorem C19_named_directory (cfg : Cfg) (hB : 1 ≤ cfg.B) (hm : HasMarker cfg) (p : Prog) (hc : CRun cfg p) (jk : Junk)
    (hj : JunkOK jk) (o : Bool) :
    namedIncomplete cfg.B ⟨o, treeIters cfg p jk⟩ =
      (match jk with
       | .plate _ => some (p.cs.length, p.cur.length)
       | _ => none) :=
  namedIncomplete_reachable cfg hB hm p hc jk hj o

/-- **removing exactly the named directory** keeps every completed step (the directory becomes the uninterrupted run's
    directory, plus at most an empty iteration directory), leaves nothing to name, and makes the scan answer exactly what it
    answers on the uninterrupted run's directory: the rerun continues at the same (iteration, plate). -/
theorem C19_remove_named_resumes (cfg : Cfg) (hB : 1 ≤ cfg.B) (hm : HasMarker cfg) (p : Prog) (hc : CRun cfg p)
    (s : Option (List File)) (o : Bool) :
    ∃ jk', Quiet p jk' ∧
      userRemove p.cs.length p.cur.length ⟨o, treeIters cfg p (.plate s)⟩ = ⟨o, treeIters cfg p jk'⟩ ∧
      namedIncomplete cfg.B ⟨o, treeIters cfg p jk'⟩ = none ∧
      examine cfg.B ⟨o, treeIters cfg p jk'⟩ = examine cfg.B ⟨o, treeIters cfg p .none⟩ ∧
      examine cfg.B ⟨o, treeIters cfg p jk'⟩ = .ok (nextOfProg cfg p) ∧
      (nextOfProg cfg p).iter = p.cs.length ∧ (nextOfProg cfg p).plate = p.cur.length :=
  remove_named_resumes cfg hB hm p hc s o

/-- the resume theorems (`C19_resume`, `C19_same_as_uninterrupted`, ...) are about executions that remove exactly the named
    directory: `planStep` answers `.named i j` iff `(i, j)` is what the scan names -/
theorem C19_named_is_what_is_removed (cfg : Cfg) (t : Tree) (i j : Nat) :
    planStep cfg t = .named i j ↔ namedIncomplete cfg.B t = some (i, j) :=
  planStep_named_iff cfg t i j

/-- the path expression interpolated after "Consider deleting this directory" in both `raise` statements of the scan, as
    GENERATED from `nextflow/scripts/batchie.py` on every run (translator module `Orch`): the scan's `plate_dir`, which is what
    the model's `ExErr.invalid it p.idx` / `ExErr.noAncestor it p.idx` carry.  A change of that expression (S7-C19: `iter_dir`)
    breaks this obligation at build time, besides being caught by the harness's `named_dir()`. -/
theorem C19_advice_names_plate_dir : Batchie.Gen.OrchNext.adviceVars = ["plate_dir", "plate_dir"] := rfl

/-! ## regression lemmas -/

/-- batch size 2, step (0,0) complete, the pipeline of step (0,1) interrupted after `selected_plate` -/
def s7Tree : Tree :=
  ⟨true, [⟨0, [⟨0, some [⟨.thetas 0, 7⟩, ⟨.dist 0, 8⟩, ⟨.selected, 4⟩, ⟨.advanced, 6⟩, ⟨.marker, 3⟩]⟩, ⟨1, some [⟨.selected, 5⟩]⟩]⟩]⟩

/-- **S7-C19** (the message names `iter_K/` instead of `iter_K/plate_J/`).  On the witness the script names `(0,1)`;
    removing that directory the scan continues at step `(0,1)` from step `(0,0)`'s screen; following the regressed advice
    (`rm -rf iter_0`) removes the COMPLETED step `(0,0)` and the scan starts again at `(0,0)`: it is executed twice. -/
theorem C19_S7_naming_iteration_dir_counterexample :
    namedIncomplete 2 s7Tree = some (0, 1) ∧
    examine 2 (userRemove 0 1 s7Tree) = .ok ⟨0, 1, some 3, some ⟨0, 0, ⟨.advanced, 6⟩⟩⟩ ∧
    namedIncompleteIterS7 2 s7Tree = some 0 ∧
    (userRemoveIter 0 s7Tree).iters = [] ∧
    examine 2 (userRemoveIter 0 s7Tree) = .ok ⟨0, 0, none, none⟩ := by
  decide

/-- eleven completed iterations of batch size 1: `iter_0 .. iter_10` -/
def s6Tree : Tree :=
  ⟨true, (List.range 11).map (fun i => ⟨i, [⟨0, some [⟨.advanced, 100 + i⟩, ⟨.marker, 20 - i⟩]⟩]⟩)⟩

/-- **S6-C19** (`sorted(...)` without `key=dir_sort_key`: lexicographic order).  With `iter_10` present the regressed scan
    visits `iter_9` last and answers step `(10,0)` -- a COMPLETED step, to be run again from `iter_9`'s screen -- while the
    script answers `(11,0)` from `iter_10`'s screen. -/
theorem C19_S6_lexicographic_scan_counterexample :
    examine 1 s6Tree = .ok ⟨11, 0, some 10, some ⟨10, 0, ⟨.advanced, 110⟩⟩⟩ ∧
    examineLexS6 1 s6Tree = .ok ⟨10, 0, some 11, some ⟨9, 0, ⟨.advanced, 109⟩⟩⟩ := by
  decide +kernel

/-- a prospective pipeline that publishes the marker last (the hypothesis of the prospective resume theorems holds) -/
def s5Pubs (_ : Launch) : List File := [⟨.thetas 0, 7⟩, ⟨.dist 0, 8⟩, ⟨.selected, 4⟩, ⟨.marker, 3⟩]

def s5Cfg : Cfg := ⟨.prospective, 2, s5Pubs⟩

/-- **S5-C19** (prospective invocation bounded by an in-process step counter instead of the position read from disk).
    Process run 1 completes `(0,0)` and is interrupted in `(0,1)`; run 2 names the partial directory; run 3 is not interrupted.
    The script stops run 3 after `(0,1)` (end of the batch); with the counter, run 3 starts at 0, performs two steps and
    launches `(1,0)` in the same invocation -- a step the uninterrupted invocation never launches. -/
theorem C19_S5_process_counter_counterexample :
    (launchedOf (runProcs s5Cfg [[none, some 3], [none], [none, none, none]] Tree.empty []).2).map (fun l => (l.iter, l.plate))
      = [(0, 0), (0, 1), (0, 1)] ∧
    (launchedOf (runProcsCounterS5 s5Cfg [[none, some 3], [none], [none, none, none]] Tree.empty []).2).map (fun l => (l.iter, l.plate))
      = [(0, 0), (0, 1), (0, 1), (1, 0)] ∧
    -- without interruption the two agree
    (launchedOf (runProcsCounterS5 s5Cfg [[none, none, none]] Tree.empty []).2).map (fun l => (l.iter, l.plate)) =
      (launchedOf (runProcs s5Cfg [[none, none, none]] Tree.empty []).2).map (fun l => (l.iter, l.plate)) := by
  decide

end Batchie.Props.C19
