/-
  C08 (extension beyond the property's text) — the interaction-only Gibbs sampler
  `LegacySparseDrugComboInteractionImpl` (`sparse_combo_interaction.py`), model `Model/GibbsInter.lean`.

  Documented model (`Lemmas/GibbsInter.lean`, `energyI`): `y_n ~ N(⟨W[c], V2[d1]∘V2[d2]⟩, 1/prec)` on combination rows,
  `W[c,d] ~ N(0, 1/tau_d)`, `V2[m,d] ~ N(0, 1/(phi2[m,d]·eta2[d]))`; `prec`, `phi2`, `eta2` and the multiplicative
  gamma process `tau = cumprod(gam)` as in the sparse combination model.

  Same excluded input class as C08: a row with the same treatment twice (`NoSelfPairI`).
  The clip of `_reconstruct_Mu(clip=True)` is NOT applied by `mcmc_step` (it passes `clip=False`, and nothing else calls
  the function); `C08Inter_clip_would_break_cache` shows on a witness what it would do to the cache invariant.
-/
import Batchie.Lemmas.GibbsInter
import Batchie.Lemmas.GibbsPosDef
import Batchie.Props.C08

namespace Batchie.Props.C08Inter
open Batchie.Gibbs Batchie.GibbsInter Finset
open Batchie.Props.C08

/-! ## cache invariant -/

/-- `_reconstruct_Mu(clip=False)` establishes `Mu = mu(params)` from any state -/
theorem C08Inter_cache_init (dt : Data ℝ) (lo hi : ℝ) (st : IState ℝ) : CacheOKI dt (reconstructMu false lo hi dt st) :=
  cacheI_reconstruct dt lo hi st

/-- `W[c]` block: for every drawn vector and for a failed draw -/
theorem C08Inter_cache_W (dt : Data ℝ) (st : IState ℝ) (h : CacheOKI dt st) (c : ℕ) (v : Option (ℕ → ℝ)) :
    CacheOKI dt (wNextI dt st c v) := cacheI_wNext dt st h c v

theorem C08Inter_cache_V2 (dt : Data ℝ) (hw : ComboRows dt) (hp : NoSelfPairI dt) (st : IState ℝ) (h : CacheOKI dt st)
    (m : ℕ) (v : Option (ℕ → ℝ)) : CacheOKI dt (v2NextI dt st m v) := cacheI_v2Next dt hw hp st h m v

/-- between any two units of the two Gaussian loops -/
theorem C08Inter_cache_within_stage (dt : Data ℝ) (hw : ComboRows dt) (hp : NoSelfPairI dt) (ω : IDraws ℝ)
    (st : IState ℝ) (h : CacheOKI dt st) (k : ℕ) :
    CacheOKI dt (iter k (wBlockI dt ω) st) ∧ CacheOKI dt (iter k (v2BlockI dt ω) st) :=
  ⟨cacheI_wIter dt ω st h k, cacheI_v2Iter dt hw hp ω st h k⟩

/-- after each of the six stages of a sweep and after the sweep, from ANY start state, for every choice log -/
theorem C08Inter_cache_sweep (dt : Data ℝ) (hw : ComboRows dt) (hp : NoSelfPairI dt) (ω : IDraws ℝ) (st : IState ℝ) :
    (∀ s ∈ mcmcTraceI dt ω st, CacheOKI dt s) ∧ CacheOKI dt (mcmcStepI dt ω st) :=
  ⟨(cacheI_sweep dt hw hp ω st).2, (cacheI_sweep dt hw hp ω st).1⟩

theorem C08Inter_cache_history (dt : Data ℝ) (hw : ComboRows dt) (hp : NoSelfPairI dt) (ωs : List (IDraws ℝ))
    (hne : ωs ≠ []) (st : IState ℝ) : CacheOKI dt (runSweepsI dt ωs st) := by
  induction ωs using List.reverseRecOn with
  | nil => exact absurd rfl hne
  | append_singleton l ω _ =>
    unfold runSweepsI
    rw [List.foldl_append]
    exact (C08Inter_cache_sweep dt hw hp ω _).2

/-- one combination row `(sample 0, treatment 0, treatment 1)`, all embeddings 1 except `W = 11` -/
def clipData : Data ℝ :=
  { nC := 1, nT := 2, D := 1, N := 1, y := fun _ => 0, cline := fun _ => 0, dd1 := fun _ => 0, dd2 := fun _ => 1,
    a0 := 1, b0 := 1 }

def clipState : IState ℝ :=
  { W := fun _ _ => 11, V2 := fun _ _ => 1, prec := 1, tau := fun _ => 1, tau0 := 1, gam := fun _ => 1,
    phi2 := fun _ _ => 1, eta2 := fun _ => 1, Mu := fun _ => 0, log := [] }

/-- the default `clip=True` of `_reconstruct_Mu` WOULD break "fitted values = those implied by the parameters" as soon as
    some `|mu_n| > 10` (here `mu = 11`, cached `10`); the sweep never uses it (`mcmcStepI` reconstructs with `clip=False`,
    `C08Inter_cache_sweep`) -/
theorem C08Inter_clip_would_break_cache :
    ComboRows clipData ∧ NoSelfPairI clipData
      ∧ ¬ CacheOKI clipData (reconstructMu true (-10) 10 clipData clipState)
      ∧ CacheOKI clipData (reconstructMu false (-10) 10 clipData clipState) := by
  refine ⟨?_, ?_, ?_, cacheI_reconstruct _ _ _ _⟩
  · intro n _; simp [clipData]
  · intro n _; simp [clipData]
  · intro h
    have h0 := h 0 (by norm_num [clipData])
    have e1 : (GibbsInter.reconstructMu true (-10) 10 clipData clipState).Mu 0 = clip (11 : ℝ) (-10) 10 := by
      simp [GibbsInter.reconstructMu, clipData, clipState, muI, muOfI, gat, sumN]
    have e2 : muI clipData (GibbsInter.reconstructMu true (-10) 10 clipData clipState) 0 = 11 := by
      simp [GibbsInter.reconstructMu, clipData, clipState, muI, muOfI, gat, sumN]
    rw [e1, e2] at h0
    unfold clip at h0
    rw [max_eq_left (by norm_num), min_eq_right (by norm_num)] at h0
    norm_num at h0

/-! ## Gaussian blocks: the arguments of `sample_mvn_from_precision` are the canonical parameters of the block's
    full conditional of the documented density -/

theorem C08Inter_mu_affine_W (dt : Data ℝ) (st : IState ℝ) (c : ℕ) (x : ℕ → ℝ) (n : ℕ) :
    muI dt (setWI st c x) n = muI dt (setWI st c (fun _ => 0)) n
      + ∑ d ∈ range dt.D, (if dt.cline n = c then gat st.V2 (dt.dd1 n) d * gat st.V2 (dt.dd2 n) d else 0) * x d := by
  rw [muI_affine_W]
  congr 1; apply sum_congr rfl; intro d _
  simp only [Blk.design, wBlkI, wXI, selNone, selC, Bool.false_eq_true, if_false, beq_iff_eq]

theorem C08Inter_mu_affine_V2 (dt : Data ℝ) (hw : ComboRows dt) (hp : NoSelfPairI dt) (st : IState ℝ) (m : ℕ)
    (x : ℕ → ℝ) (n : ℕ) (hn : n < dt.N) :
    muI dt (setV2I st m x) n = muI dt (setV2I st m (fun _ => 0)) n
      + ∑ d ∈ range dt.D,
          (if dt.dd2 n = (m : ℤ) then st.W (dt.cline n) d * gat st.V2 (dt.dd1 n) d
            else if dt.dd1 n = (m : ℤ) then st.W (dt.cline n) d * gat st.V2 (dt.dd2 n) d else 0) * x d := by
  rw [muI_affine_V2 dt hw hp st m x n hn]
  congr 1; apply sum_congr rfl; intro d _
  simp only [Blk.design, v2BlkI, sel1, sel2, beq_iff_eq]

/-- `W[c]`: `E(x) − E(0) = ½ xᵀQx − mu_partᵀx` with the `(Q, mu_part)` of the code -/
theorem C08Inter_block_W (dt : Data ℝ) (st : IState ℝ) (h : CacheOKI dt st) (c : ℕ) (hc : c < dt.nC) (x : ℕ → ℝ) :
    energyI dt (setWI st c x) - energyI dt (setWI st c (fun _ => 0))
      = (1/2) * ∑ d ∈ range dt.D, ∑ e ∈ range dt.D, x d * (wBlkI dt st c).Q st.prec d e * x e
        - ∑ d ∈ range dt.D, (wBlkI dt st c).muPart dt.y st.Mu st.prec d * x d :=
  blockI_W dt st h c hc x

theorem C08Inter_block_V2 (dt : Data ℝ) (hw : ComboRows dt) (hp : NoSelfPairI dt) (st : IState ℝ) (h : CacheOKI dt st)
    (m : ℕ) (hm : m < dt.nT) (x : ℕ → ℝ) :
    energyI dt (setV2I st m x) - energyI dt (setV2I st m (fun _ => 0))
      = (1/2) * ∑ d ∈ range dt.D, ∑ e ∈ range dt.D, x d * (v2BlkI dt st m).Q st.prec d e * x e
        - ∑ d ∈ range dt.D, (v2BlkI dt st m).muPart dt.y st.Mu st.prec d * x d :=
  blockI_V2 dt hw hp st h m hm x

/-- what is logged for a Gaussian site is that argument tuple; a unit without data logs the prior `N(0, diag 1/λ)` -/
theorem C08Inter_logged_args (dt : Data ℝ) (ω : IDraws ℝ) (st : IState ℝ) (c m : ℕ) :
    (wBlockI dt ω c st).log = st.log ++ [(wBlkI dt st c).record (.W c) dt.y st.Mu st.prec]
    ∧ (v2BlockI dt ω m st).log = st.log ++ [(v2BlkI dt st m).record (.V2 m) dt.y st.Mu st.prec]
    ∧ ((wBlkI dt st c).has = true → (wBlkI dt st c).record (.W c) dt.y st.Mu st.prec
        = ⟨.W c, .mvn, flatMat dt.D dt.D ((wBlkI dt st c).Q st.prec) ++ flatVec dt.D ((wBlkI dt st c).muPart dt.y st.Mu st.prec)⟩)
    ∧ ((v2BlkI dt st m).has = true → (v2BlkI dt st m).record (.V2 m) dt.y st.Mu st.prec
        = ⟨.V2 m, .mvn, flatMat dt.D dt.D ((v2BlkI dt st m).Q st.prec) ++ flatVec dt.D ((v2BlkI dt st m).muPart dt.y st.Mu st.prec)⟩)
    ∧ ((wBlkI dt st c).has = false → (wBlkI dt st c).record (.W c) dt.y st.Mu st.prec
        = ⟨.W c, .normalVec, (0 : ℝ) :: flatVec dt.D (fun d => 1 / Real.sqrt (st.tau d))⟩)
    ∧ ((v2BlkI dt st m).has = false → (v2BlkI dt st m).record (.V2 m) dt.y st.Mu st.prec
        = ⟨.V2 m, .normalVec, (0 : ℝ) :: flatVec dt.D (fun d => 1 / Real.sqrt (st.phi2 m d * st.eta2 d))⟩) := by
  refine ⟨?_, ?_, ?_, ?_, ?_, ?_⟩
  · unfold wBlockI IState.push; rw [wNextI_log]
  · unfold v2BlockI IState.push; rw [v2NextI_log]
  · intro h; unfold Blk.record; rw [if_pos h]; rfl
  · intro h; unfold Blk.record; rw [if_pos h]; rfl
  · intro h; unfold Blk.record; rw [h]; rfl
  · intro h; unfold Blk.record; rw [h]; rfl

/-- `Q` is positive definite when `prec ≥ 0` and the prior precisions are positive -/
theorem C08Inter_block_Q_posdef (dt : Data ℝ) (hp : NoSelfPairI dt) (st : IState ℝ) (hprec : 0 ≤ st.prec) (c m : ℕ)
    (x : ℕ → ℝ) (hx : ∃ d, d < dt.D ∧ x d ≠ 0) :
    ((∀ d, d < dt.D → 0 < st.tau d) →
        0 < ∑ d ∈ range dt.D, ∑ e ∈ range dt.D, x d * (wBlkI dt st c).Q st.prec d e * x e)
    ∧ ((∀ d, d < dt.D → 0 < st.phi2 m d * st.eta2 d) →
        0 < ∑ d ∈ range dt.D, ∑ e ∈ range dt.D, x d * (v2BlkI dt st m).Q st.prec d e * x e) :=
  ⟨fun h => (wBlkI dt st c).Q_posdef (noSelf_wBlkI dt st c) st.prec hprec h x hx,
   fun h => (v2BlkI dt st m).Q_posdef (noSelf_v2BlkI dt hp st m) st.prec hprec h x hx⟩

/-! ## precision blocks, as the sweep runs them -/

theorem C08Inter_sweep_stages (dt : Data ℝ) (ω : IDraws ℝ) (st : IState ℝ) :
    mcmcStepI dt ω st = precWStepI dt ω (precV2StepI dt ω (precObsStepI dt ω (v2StepI dt ω (wStepI dt ω
      (reconstructMu false 0 0 dt st))))) := rfl

/-- observation noise: conjugate `Gamma(a0 + N/2, rate b0 + ½·SSE + ε)` with the SSE of the current parameters (cache
    invariant); prior draw without stabiliser and clip when there are no observations -/
theorem C08Inter_gamma_prec (dt : Data ℝ) (ω : IDraws ℝ) (st : IState ℝ) (h : CacheOKI dt st) :
    (precObsStepI dt ω st).log = st.log ++ [⟨.prec, .gamma, [(precArgsI dt st).shape, (precArgsI dt st).scale]⟩]
    ∧ (dt.N ≠ 0 → ∀ L p : ℝ,
        (dt.a0 - 1) * L - dt.b0 * p + ∑ n ∈ range dt.N, ((1/2) * L - (1/2) * p * (dt.y n - muI dt st n)^2)
          = ((precArgsI dt st).shape - 1) * L - (1 / (precArgsI dt st).scale - eps) * p)
    ∧ (dt.N = 0 → ∀ L p : ℝ,
        (dt.a0 - 1) * L - dt.b0 * p = ((precArgsI dt st).shape - 1) * L - (1 / (precArgsI dt st).scale) * p)
    ∧ (dt.N ≠ 0 → (precObsStepI dt ω st).prec = clip ω.prec (lowOf (natTo dt.N)) big)
    ∧ (dt.N = 0 → (precObsStepI dt ω st).prec = ω.prec) := by
  refine ⟨rfl, fun hN L p => ?_, fun hN L p => ?_, fun hN => ?_, fun hN => ?_⟩
  · unfold precArgsI
    simp only [hN, if_false, sumN_eq, natTo_eq, half_val, sqr]
    rw [rate_of_scale, gamma_conj]
    have : ∑ n ∈ range dt.N, (dt.y n - muI dt st n)^2 = ∑ n ∈ range dt.N, (dt.y n - st.Mu n) * (dt.y n - st.Mu n) :=
      sum_congr rfl (fun n hn => by rw [h n (mem_range.mp hn)]; ring)
    rw [this]
  · unfold precArgsI
    simp only [hN, if_true, one_div_one_div]
  · show (if dt.N = 0 then ω.prec else clip ω.prec (lowOf (natTo dt.N)) big) = _
    rw [if_neg hN]
  · show (if dt.N = 0 then ω.prec else clip ω.prec (lowOf (natTo dt.N)) big) = _
    rw [if_pos hN]

/-- `_prec_V2_step`: `phiaux2` from the old `phi2`; `phi2` from `phiaux2`, the not-yet-redrawn `eta2` and `V2`; `etaaux2`
    from the old `eta2`; `eta2` from `etaaux2`, `V2` and the NEW clipped `phi2` -/
theorem C08Inter_gamma_V2_stage (dt : Data ℝ) (ω : IDraws ℝ) (st : IState ℝ) :
    (precV2StepI dt ω st).log = st.log ++
        [⟨.phi2aux, .gamma, (1 : ℝ) :: flatMat dt.nT dt.D (phiAuxScale st.phi2)⟩,
         ⟨.phi2, .gamma, (1 : ℝ) :: flatMat dt.nT dt.D (phiScale st.V2 st.eta2 ω.phi2aux)⟩,
         ⟨.eta2aux, .gamma, (1 : ℝ) :: flatVec dt.D (etaAuxScale st.eta2)⟩,
         ⟨.eta2, .gamma, etaShape dt :: flatVec dt.D (etaScale dt st.V2 (precV2StepI dt ω st).phi2 ω.eta2aux)⟩]
    ∧ (precV2StepI dt ω st).phi2 = (fun m d => clip (ω.phi2 m d) (lowOf (occ dt m)) big)
    ∧ (precV2StepI dt ω st).eta2 = (fun d => clip (ω.eta2 d) (lowOf (natTo dt.N)) big)
    ∧ (∀ m d (L p : ℝ), ((1/2 : ℝ) - 1) * L - ω.phi2aux m d * p + ((1/2) * L - (1/2) * p * (st.eta2 d * st.V2 m d ^ 2))
        = ((1 : ℝ) - 1) * L - (1 / phiScale st.V2 st.eta2 ω.phi2aux m d - eps) * p)
    ∧ (∀ m d (L p : ℝ), ((1/2 : ℝ) - 1) * L - 1 * p + ((1/2) * L - p * st.phi2 m d)
        = ((1 : ℝ) - 1) * L - (1 / phiAuxScale st.phi2 m d) * p)
    ∧ (∀ d (L p : ℝ), ((1/2 : ℝ) - 1) * L - ω.eta2aux d * p
          + ∑ m ∈ range dt.nT, ((1/2) * L - (1/2) * p * (clip (ω.phi2 m d) (lowOf (occ dt m)) big * st.V2 m d ^ 2))
        = (etaShape dt - 1) * L - (1 / etaScale dt st.V2 (precV2StepI dt ω st).phi2 ω.eta2aux d - eps) * p)
    ∧ (∀ d (L p : ℝ), ((1/2 : ℝ) - 1) * L - 1 * p + ((1/2) * L - p * st.eta2 d)
        = ((1 : ℝ) - 1) * L - (1 / etaAuxScale st.eta2 d) * p) := by
  refine ⟨?_, rfl, rfl, fun m d L p => ?_, fun m d L p => ?_, fun d L p => ?_, fun d L p => ?_⟩
  · simp only [precV2StepI, IState.push, List.append_assoc, List.cons_append, List.nil_append]
  · exact (C08_gamma_phi st.V2 st.phi2 st.eta2 ω.phi2aux m d L p).1
  · exact (C08_gamma_phi st.V2 st.phi2 st.eta2 ω.phi2aux m d L p).2
  · exact (C08_gamma_eta dt st.V2 (precV2StepI dt ω st).phi2 st.eta2 ω.eta2aux d L p).1
  · exact (C08_gamma_eta dt st.V2 (precV2StepI dt ω st).phi2 st.eta2 ω.eta2aux d L p).2

/-- multiplicative gamma process: `gam[d]` is drawn from the conjugate gamma given `W` and the CURRENT factors
    `gamCurI ω st d` (this sweep's draws below `d`, the previous values from `d` on); afterwards
    `tau = clip(cumprod(gam))` -/
theorem C08Inter_gamma_gam_sweep (dt : Data ℝ) (ω : IDraws ℝ) (st : IState ℝ) :
    (precWStepI dt ω st).log = st.log ++ (List.range dt.D).map (fun d =>
        (⟨.gam d, .gamma, [(gamArgs dt st.W (gamCurI ω st d) d).shape, (gamArgs dt st.W (gamCurI ω st d) d).scale]⟩ : Rec ℝ))
    ∧ (precWStepI dt ω st).gam = gamCurI ω st dt.D
    ∧ (∀ e, (precWStepI dt ω st).tau e = clip (cumprod (gamCurI ω st dt.D) e) (lowOf (natTo dt.N)) big)
    ∧ (∀ d, st.gam d ≠ 0 → ∀ (L p : ℝ) (Lr : ℕ → ℝ),
        ((if d = 0 then (2 : ℝ) else 3) - 1) * L - 1 * p
          + ∑ c ∈ range dt.nC, ∑ e ∈ range dt.D,
              (if d ≤ e then (1/2) * (L + Lr e) - (1/2) * cumprod (upd (gamCurI ω st d) d p) e * st.W c e ^ 2 else 0)
        = ((gamArgs dt st.W (gamCurI ω st d) d).shape - 1) * L - (1 / (gamArgs dt st.W (gamCurI ω st d) d).scale - eps) * p
          + ∑ _c ∈ range dt.nC, ∑ e ∈ range dt.D, (if d ≤ e then (1/2) * Lr e else 0)) := by
  refine ⟨(gamIterI_spec dt ω st dt.D).2.2.1, (gamIterI_spec dt ω st dt.D).1, fun e => ?_, fun d hd L p Lr => ?_⟩
  · show clip (cumprod (iter dt.D (gamBlockI dt ω) st).gam e) _ _ = _
    rw [(gamIterI_spec dt ω st dt.D).1]
  · have hg : gamCurI ω st d d ≠ 0 := by
      unfold gamCurI; rw [if_neg (lt_irrefl d)]; exact hd
    exact C08_gamma_gam dt st.W (gamCurI ω st d) d hg L p Lr

/-! ## bounds, order, export -/

/-- after every sweep: `prec` (with observations), `eta2`, `tau` in `[1/√(1+N), 10⁶]`, `phi2[m,·]` in
    `[1/√(1+N1[m]+N2[m]), 10⁶]` -/
theorem C08Inter_bounds (dt : Data ℝ) (ω : IDraws ℝ) (st : IState ℝ) :
    (dt.N ≠ 0 → InRange (natTo dt.N) (mcmcStepI dt ω st).prec)
    ∧ (∀ d, InRange (natTo dt.N) ((mcmcStepI dt ω st).eta2 d))
    ∧ (∀ m d, InRange (occ dt m) ((mcmcStepI dt ω st).phi2 m d))
    ∧ (∀ d, InRange (natTo dt.N) ((mcmcStepI dt ω st).tau d)) := by
  rw [mcmcStepI_eq]
  have hN := natTo_nonneg dt.N
  obtain ⟨-, -, -, f1, f2, f3, -⟩ := gamIterI_spec dt ω (precV2StepI dt ω (precObsStepI dt ω (v2StepI dt ω (wStepI dt ω
      (reconstructMu false 0 0 dt st))))) dt.D
  refine ⟨fun h => ?_, fun d => ?_, fun m d => ?_, fun d => clip_inRange _ _ hN⟩
  · show InRange _ (iter dt.D (gamBlockI dt ω) _).prec
    rw [f1]
    show InRange _ (if dt.N = 0 then ω.prec else clip ω.prec (lowOf (natTo dt.N)) big)
    rw [if_neg h]; exact clip_inRange _ _ hN
  · show InRange _ ((iter dt.D (gamBlockI dt ω) _).eta2 d)
    rw [f3]; exact clip_inRange _ _ hN
  · show InRange _ ((iter dt.D (gamBlockI dt ω) _).phi2 m d)
    rw [f2]; exact clip_inRange _ _ (occ_nonneg dt m)

/-- a sweep visits `W[0..], V2[0..], prec, phi2aux, phi2, eta2aux, eta2, gam[0..]` in this order, each once -/
theorem C08Inter_order (dt : Data ℝ) (ω : IDraws ℝ) (st : IState ℝ) :
    (mcmcStepI dt ω st).log.map (·.site) = st.log.map (·.site) ++ scheduleI dt.nC dt.nT dt.D
    ∧ (scheduleI dt.nC dt.nT dt.D).Nodup :=
  ⟨sitesI_sweep dt ω st, scheduleI_nodup _ _ _⟩

/-- the exported sample reproduces on the training rows (combination rows: the control mask of the predictor is inactive)
    the fitted values of the current parameters — hence `Mu` after any sweep — and its variance is `1/prec` -/
theorem C08Inter_export_reproduces (dt : Data ℝ) (hw : ComboRows dt) (hp : NoSelfPairI dt) (ω : IDraws ℝ) (st : IState ℝ) :
    (∀ s : IState ℝ, ∀ n, n < dt.N →
        predictI dt.D (exportStateI s) (dt.cline n) (dt.dd1 n) (dt.dd2 n) = muI dt s n)
    ∧ (∀ n, n < dt.N → predictI dt.D (exportStateI (mcmcStepI dt ω st)) (dt.cline n) (dt.dd1 n) (dt.dd2 n)
        = (mcmcStepI dt ω st).Mu n)
    ∧ predictVarianceI (exportStateI (mcmcStepI dt ω st)) = 1 / (mcmcStepI dt ω st).prec := by
  have key : ∀ s : IState ℝ, ∀ n, n < dt.N →
      predictI dt.D (exportStateI s) (dt.cline n) (dt.dd1 n) (dt.dd2 n) = muI dt s n := by
    intro s n hn
    have h1 : dt.dd1 n ≠ -1 := by have := (hw n hn).1; omega
    have h2 : dt.dd2 n ≠ -1 := by have := (hw n hn).2; omega
    unfold predictI muI muOfI exportStateI getV gat
    simp only [h1, h2, if_false]
  refine ⟨key, fun n hn => ?_, rfl⟩
  rw [(cacheI_sweep dt hw hp ω st).1 n hn]
  exact key _ n hn

/-! ## non-vacuity -/

example : ComboRows clipData ∧ NoSelfPairI clipData ∧ CacheOKI clipData (reconstructMu false 0 0 clipData clipState) :=
  ⟨C08Inter_clip_would_break_cache.1, C08Inter_clip_would_break_cache.2.1, cacheI_reconstruct _ _ _ _⟩

end Batchie.Props.C08Inter
