/- model driver for C18: one operation per input line, one canonical line out -/
import Batchie.Model.DriverLoop
import Batchie.Model.RandIO
import Batchie.Model.ArgParse

open Batchie

def main : IO Unit := DriverLoop.run [RandIO.handle, ArgParse.handle]
