/- model driver for C08: one operation per input line, one canonical line out -/
import Batchie.Model.DriverLoop
import Batchie.Model.GibbsIO
import Batchie.Model.GibbsInterIO

open Batchie

def main : IO Unit := DriverLoop.run [GibbsIO.handle, GibbsInterIO.handle]
