/- model driver for C09: one operation per input line, one canonical line out -/
import Batchie.Model.DriverLoop
import Batchie.Model.Predict

open Batchie

def main : IO Unit := DriverLoop.run [Predict.IO.handle]
