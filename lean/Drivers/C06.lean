/- model driver for C06: one operation per input line, one canonical line out -/
import Batchie.Model.DriverLoop
import Batchie.Model.ScoresIO
import Batchie.Model.ScorePipelineIO

open Batchie

def main : IO Unit := DriverLoop.run [ScoresIO.handle, ScreenIO.handle, ScorePipelineIO.handle]
