/- model driver for C20: one operation per input line, one canonical line out -/
import Batchie.Model.DriverLoop
import Batchie.Model.Metrics

open Batchie

def main : IO Unit := DriverLoop.run [Metrics.IO.handle]
