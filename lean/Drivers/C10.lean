/- model driver for C10: one operation per input line, one canonical line out -/
import Batchie.Model.DriverLoop
import Batchie.Model.ThetasIO

open Batchie

def main : IO Unit := DriverLoop.run [ThetasIO.handle]
