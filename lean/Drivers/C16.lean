/- model driver for C16: one operation per input line, one canonical line out -/
import Batchie.Model.DriverLoop
import Batchie.Model.PolicyIO

open Batchie

def main : IO Unit := DriverLoop.run [PolicyIO.handle]
