/- model driver for C12: one operation per input line, one canonical line out -/
import Batchie.Model.DriverLoop
import Batchie.Model.ScreenIO
import Batchie.Model.RetroIO

open Batchie

def main : IO Unit := DriverLoop.run [RetroIO.handle, ScreenIO.handle]
