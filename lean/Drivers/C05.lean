/- model driver for C05: one operation per input line, one canonical line out -/
import Batchie.Model.DriverLoop
import Batchie.Model.DbalIO

open Batchie

def main : IO Unit := DriverLoop.run [Dbal.handle]
