/- model driver for C17: one operation per input line, one canonical line out -/
import Batchie.Model.DriverLoop
import Batchie.Model.SamplingIO

open Batchie

def main : IO Unit := DriverLoop.run [SamplingIO.handle]
