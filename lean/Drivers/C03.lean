/- model driver for C03: one operation per input line, one canonical line out -/
import Batchie.Model.DriverLoop

open Batchie

def main : IO Unit := DriverLoop.run []
