/- model driver for C03: one operation per input line, one canonical line out -/
import Batchie.Model.DriverLoop
import Batchie.Model.ScreenIO
import Batchie.Model.RetroIO
import Batchie.Model.TrainStageIO

open Batchie

def main : IO Unit := DriverLoop.run [RetroIO.handle, TrainStageIO.handle, ScreenIO.handle]
