/- model driver for C19: one operation per input line, one canonical line out -/
import Batchie.Model.DriverLoop
import Batchie.Model.OrchestratorIO

open Batchie

def main : IO Unit := DriverLoop.run [Orchestrator.handle]
