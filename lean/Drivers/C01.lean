/- model driver for C01: one operation per input line, one canonical line out -/
import Batchie.Model.DriverLoop
import Batchie.Model.ScreenIO
import Batchie.Model.ScreenIOC01

open Batchie

def main : IO Unit := DriverLoop.run [ScreenIO.handle, ScreenIOC01.handle]
