/- model driver for C01: one operation per input line, one canonical line out -/
import Batchie.Model.DriverLoop
import Batchie.Model.ScreenIO

open Batchie

def main : IO Unit := DriverLoop.run [ScreenIO.handle]
