/- model driver for C13: one operation per input line, one canonical line out -/
import Batchie.Model.DriverLoop
import Batchie.Model.ScreenIO
import Batchie.Model.PrepIO
import Batchie.Model.PrepPipelineIO

open Batchie

def main : IO Unit := DriverLoop.run [PrepPipelineIO.handle, PrepIO.handle, ScreenIO.handle]
