/- model driver for C13: one operation per input line, one canonical line out -/
import Batchie.Model.DriverLoop
import Batchie.Model.ScreenIO
import Batchie.Model.PrepIO

open Batchie

def main : IO Unit := DriverLoop.run [PrepIO.handle, ScreenIO.handle]
