/- model driver for C07: one operation per input line, one canonical line out -/
import Batchie.Model.DriverLoop
import Batchie.Model.Chunks

open Batchie

def main : IO Unit := DriverLoop.run [Chunks.handle]
