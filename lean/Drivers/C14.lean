/- model driver for C14: one operation per input line, one canonical line out -/
import Batchie.Model.DriverLoop
import Batchie.Model.ScreenIO
import Batchie.Model.ViewsIO

open Batchie

def main : IO Unit := DriverLoop.run [ScreenIO.handle, ViewsIO.handle]
