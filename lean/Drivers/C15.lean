/- model driver for C15: one operation per input line, one canonical line out -/
import Batchie.Model.DriverLoop
import Batchie.Model.UnrankIO
import Batchie.Model.UnrankCallsite

open Batchie

def main : IO Unit := DriverLoop.run [UnrankIO.handle, UnrankCallsite.handle]
