/-
  Model driver: one operation per input line, one canonical line out.
  Run as `lake exe driver` (compiled) or `lake env lean --run Driver.lean`.
-/
import Batchie.Model.Proto
import Batchie.Model.Chunks

open Batchie

def handlers : List (List String → Option String) :=
  [Chunks.handle]

def step (line : String) : String :=
  let toks := (line.trimAscii.toString.splitOn " ").filter (· ≠ "")
  match handlers.findSome? (fun h => h toks) with
  | some out => out
  | none => "bad-op"

partial def loop (h : IO.FS.Stream) (out : IO.FS.Stream) : IO Unit := do
  let line ← h.getLine
  if line.isEmpty then return ()
  out.putStrLn (step line)
  loop h out

def main : IO Unit := do
  let out ← IO.getStdout
  loop (← IO.getStdin) out
  out.flush
