import Batchie.Model.PyInt
import Batchie.Model.Proto
import Batchie.Generated.Unrank
import Batchie.Generated.Chunks
import Batchie.Generated.Sampling
import Batchie.Model.Chunks
