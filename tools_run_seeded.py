#!/usr/bin/env python3
"""apply each seeded change to /repo, run the property's check, undo, record the outcome.
usage: tools_run_seeded.py [--tier quick] [ids...]"""
import json, os, subprocess, sys, time
here = os.path.dirname(os.path.abspath(__file__))
tier = "quick"
args = sys.argv[1:]
scratch = False
while args and args[0].startswith("--"):
    if args[0] == "--tier":
        tier = args[1]; args = args[2:]
    elif args[0] == "--scratch":   # run against a scratch worktree via BATCHIE_REPO instead of patching /repo
        scratch = True; args = args[1:]
    else:
        break
ids = args or sorted(os.listdir(os.path.join(here, "seeded")))
summary = {}
for i in ids:
    d = os.path.join(here, "seeded", i)
    if not os.path.exists(os.path.join(d, "patch.diff")):
        continue
    meta = json.load(open(os.path.join(d, "meta.json")))
    prop = meta["property"]
    if not os.path.exists(os.path.join(here, "props", prop + ".json")):
        summary[i] = "no check for %s yet" % prop
        continue
    env = dict(os.environ)
    target = "/repo"
    if scratch:
        target = "/tmp/seedrun_%s" % i
        subprocess.run(["git", "-C", "/repo", "worktree", "remove", "--force", target], capture_output=True)
        subprocess.run(["git", "-C", "/repo", "worktree", "add", "--detach", target, "HEAD"], check=True, capture_output=True)
        env["BATCHIE_REPO"] = target
    st = subprocess.run(["git", "-C", target, "status", "--porcelain", "--untracked-files=no"], capture_output=True, text=True).stdout.strip()
    if st:
        print("refusing: /repo has local modifications:\n" + st); sys.exit(2)
    r = subprocess.run(["git", "-C", target, "apply", os.path.join(d, "patch.diff")], capture_output=True, text=True)
    if r.returncode != 0:
        summary[i] = "patch does not apply: " + r.stderr[:200]
        continue
    t0 = time.time()
    try:
        p = subprocess.run([os.path.join(here, "check"), prop, "--tier", tier], capture_output=True, text=True, timeout=3600, env=env)
        out, rc = p.stdout + p.stderr, p.returncode
    except subprocess.TimeoutExpired:
        out, rc = "timeout", 124
    finally:
        if scratch:
            subprocess.run(["git", "-C", "/repo", "worktree", "remove", "--force", target], capture_output=True)
        else:
            subprocess.run(["git", "-C", "/repo", "checkout", "--", "."], check=True)
    vio = [l for l in out.splitlines() if l.startswith("VIOLATION")]
    res = {"property": prop, "tier": tier, "exit": rc, "violation_line": vio[-1] if vio else None, "wall_s": round(time.time() - t0, 1),
           "caught": rc == 1 and bool(vio), "concrete_replay": bool(vio) and "no-failing-input-found" not in vio[-1], "tail": out[-600:]}
    json.dump(res, open(os.path.join(d, "result.json"), "w"), indent=1)
    summary[i] = ("CAUGHT" if res["caught"] else "MISSED") + (" (concrete)" if res["concrete_replay"] else " (no input)" if res["caught"] else "") + " rc=%d %.0fs" % (rc, res["wall_s"])
    print(i, summary[i], flush=True)
# restore the translator output for the real /repo (a scratch/mutated run rewrote lean/Batchie/Generated)
subprocess.run([sys.executable, os.path.join(here, "translate", "py2lean.py")], capture_output=True, env={k: v for k, v in os.environ.items() if k != "BATCHIE_REPO"})
print(json.dumps(summary, indent=1))
